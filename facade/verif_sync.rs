// Sequential facade for std::sync::{RwLock, Mutex} and std::collections::HashMap, used ONLY in the scratch copy of the crate
// that Kani analyses (tools/kaniprep.py, DESIGN 3.1).  Same call surface as the crate uses; the implementation is a borrow
// flag + UnsafeCell.  Dropped: poisoning, blocking (a conflicting acquire on the only thread is reported as an assertion
// failure "self-deadlock": with the real lock the thread would wait for itself forever).  Kept: guard scopes.
#![allow(dead_code)]
use std::cell::{Cell, UnsafeCell};
use std::ops::{Deref, DerefMut};

/// Leaking stand-in for std::sync::Arc (only `new`, `clone`, `Deref`, `ptr_eq` are used by the crate): the allocation is never
/// freed and has NO Drop impl.  Dropped: deallocation and every destructor behind an Arc (reference counts are not modelled).
/// Why: with the real Arc, CBMC explores `drop_slow` recursively through every `dyn Fn` closure that captures another Arc
/// (Observer -> teardown closure -> StreamController/Subject map -> Observer ...), which made L2' harnesses run out of memory.
pub struct Arc<T> {
  p: *const T,
}
unsafe impl<T: Send + Sync> Send for Arc<T> {}
unsafe impl<T: Send + Sync> Sync for Arc<T> {}
impl<T> Arc<T> {
  pub fn new(v: T) -> Arc<T> {
    Arc { p: Box::into_raw(Box::new(v)) }
  }
  pub fn ptr_eq(a: &Arc<T>, b: &Arc<T>) -> bool {
    std::ptr::eq(a.p, b.p)
  }
}
impl<T> Clone for Arc<T> {
  #[inline(always)]
  fn clone(&self) -> Arc<T> {
    Arc { p: self.p }
  }
}
impl<T> Deref for Arc<T> {
  type Target = T;
  #[inline(always)]
  fn deref(&self) -> &T {
    unsafe { &*self.p }
  }
}

pub struct Lk<G>(G);
impl<G> Lk<G> {
  #[inline(always)]
  pub fn unwrap(self) -> G {
    self.0
  }
  #[inline(always)]
  pub fn ok(self) -> Option<G> {
    Some(self.0)
  }
}

pub struct RwLock<T> {
  state: Cell<isize>, // 0 free, n>0 readers, -1 writer
  v: UnsafeCell<T>,
}
unsafe impl<T: Send> Send for RwLock<T> {}
unsafe impl<T: Send + Sync> Sync for RwLock<T> {}

pub struct RwLockReadGuard<'a, T> {
  l: &'a RwLock<T>,
}
pub struct RwLockWriteGuard<'a, T> {
  l: &'a RwLock<T>,
}

#[cfg(kani)]
#[inline(always)]
fn deadlock_check(ok: bool) {
  kani::assert(ok, "self-deadlock: lock acquired while the same thread holds it incompatibly");
}
#[cfg(not(kani))]
#[inline(always)]
fn deadlock_check(ok: bool) {
  assert!(ok, "self-deadlock: lock acquired while the same thread holds it incompatibly");
}

impl<T> RwLock<T> {
  pub fn new(v: T) -> RwLock<T> {
    RwLock { state: Cell::new(0), v: UnsafeCell::new(v) }
  }
  pub fn read(&self) -> Lk<RwLockReadGuard<'_, T>> {
    deadlock_check(self.state.get() >= 0);
    self.state.set(self.state.get() + 1);
    Lk(RwLockReadGuard { l: self })
  }
  pub fn write(&self) -> Lk<RwLockWriteGuard<'_, T>> {
    deadlock_check(self.state.get() == 0);
    self.state.set(-1);
    Lk(RwLockWriteGuard { l: self })
  }
  /// non-blocking variants: fail exactly when the blocking variant would have to wait
  pub fn try_read(&self) -> Result<RwLockReadGuard<'_, T>, TryLockError> {
    if self.state.get() >= 0 {
      self.state.set(self.state.get() + 1);
      Ok(RwLockReadGuard { l: self })
    } else {
      Err(TryLockError)
    }
  }
  pub fn try_write(&self) -> Result<RwLockWriteGuard<'_, T>, TryLockError> {
    if self.state.get() == 0 {
      self.state.set(-1);
      Ok(RwLockWriteGuard { l: self })
    } else {
      Err(TryLockError)
    }
  }
  pub fn into_inner(self) -> Lk<T> {
    Lk(self.v.into_inner())
  }
}
#[derive(Debug)]
pub struct TryLockError;
impl<'a, T> Deref for RwLockReadGuard<'a, T> {
  type Target = T;
  #[inline(always)]
  fn deref(&self) -> &T {
    unsafe { &*self.l.v.get() }
  }
}
impl<'a, T> Drop for RwLockReadGuard<'a, T> {
  fn drop(&mut self) {
    self.l.state.set(self.l.state.get() - 1);
  }
}
impl<'a, T> Deref for RwLockWriteGuard<'a, T> {
  type Target = T;
  #[inline(always)]
  fn deref(&self) -> &T {
    unsafe { &*self.l.v.get() }
  }
}
impl<'a, T> DerefMut for RwLockWriteGuard<'a, T> {
  #[inline(always)]
  fn deref_mut(&mut self) -> &mut T {
    unsafe { &mut *self.l.v.get() }
  }
}
impl<'a, T> Drop for RwLockWriteGuard<'a, T> {
  fn drop(&mut self) {
    self.l.state.set(0);
  }
}

/// association-list map with the HashMap methods the crate uses.  Iteration order: insertion order, or its reverse when
/// `REVERSE_ITER` is set by the harness (so order-dependence of HashMap iteration is exercised for both orders of <=2 entries).
pub struct HashMap<K, V> {
  e: Vec<(K, V)>,
}
pub static REVERSE_ITER: std::sync::atomic::AtomicBool = std::sync::atomic::AtomicBool::new(false);

impl<K: PartialEq, V> HashMap<K, V> {
  pub fn new() -> HashMap<K, V> {
    HashMap { e: Vec::new() }
  }
  pub fn insert(&mut self, k: K, v: V) -> Option<V> {
    let mut i = 0;
    while i < self.e.len() {
      if self.e[i].0 == k {
        let old = std::mem::replace(&mut self.e[i].1, v);
        return Some(old);
      }
      i += 1;
    }
    self.e.push((k, v));
    None
  }
  pub fn remove(&mut self, k: &K) -> Option<V> {
    let mut i = 0;
    while i < self.e.len() {
      if self.e[i].0 == *k {
        return Some(self.e.remove(i).1);
      }
      i += 1;
    }
    None
  }
  pub fn get(&self, k: &K) -> Option<&V> {
    let mut i = 0;
    while i < self.e.len() {
      if self.e[i].0 == *k {
        return Some(&self.e[i].1);
      }
      i += 1;
    }
    None
  }
  pub fn contains_key(&self, k: &K) -> bool {
    self.get(k).is_some()
  }
  pub fn len(&self) -> usize {
    self.e.len()
  }
  pub fn is_empty(&self) -> bool {
    self.e.is_empty()
  }
  pub fn clear(&mut self) {
    self.e.clear();
  }
  pub fn iter(&self) -> MapIter<'_, K, V> {
    MapIter { m: self, i: 0, rev: REVERSE_ITER.load(std::sync::atomic::Ordering::Relaxed) }
  }
}
pub struct MapIter<'a, K, V> {
  m: &'a HashMap<K, V>,
  i: usize,
  rev: bool,
}
impl<'a, K, V> Iterator for MapIter<'a, K, V> {
  type Item = (&'a K, &'a V);
  fn next(&mut self) -> Option<(&'a K, &'a V)> {
    let n = self.m.e.len();
    if self.i >= n {
      return None;
    }
    let idx = if self.rev { n - 1 - self.i } else { self.i };
    self.i += 1;
    let (k, v) = &self.m.e[idx];
    Some((k, v))
  }
}

/// fixed-capacity association map with the HashMap methods the crate uses (no heap: a `Vec<(K, Observer)>` made CBMC's drop-glue
/// exploration blow up).  Capacity MAP_CAP entries (inserting more is reported as a harness bound violation).  Iteration order:
/// slot order, or its reverse when `REVERSE_ITER` is set by the harness (so order-dependence of HashMap iteration is exercised
/// for both orders).
pub const MAP_CAP: usize = 3;
pub struct ArrayHashMap<K, V> {
  e: [Option<(K, V)>; MAP_CAP],
}

impl<K: PartialEq, V> ArrayHashMap<K, V> {
  pub fn new() -> ArrayHashMap<K, V> {
    ArrayHashMap { e: [None, None, None] }
  }
  fn find(&self, k: &K) -> Option<usize> {
    macro_rules! at {
      ($i:expr) => {
        if let Some((kk, _)) = &self.e[$i] {
          if *kk == *k {
            return Some($i);
          }
        }
      };
    }
    at!(0);
    at!(1);
    at!(2);
    None
  }
  pub fn insert(&mut self, k: K, v: V) -> Option<V> {
    if let Some(i) = self.find(&k) {
      let old = self.e[i].take();
      self.e[i] = Some((k, v));
      return old.map(|x| x.1);
    }
    macro_rules! at {
      ($i:expr) => {
        if self.e[$i].is_none() {
          self.e[$i] = Some((k, v));
          return None;
        }
      };
    }
    at!(0);
    at!(1);
    at!(2);
    deadlock_check(false); // harness bound exceeded: more than MAP_CAP entries
    None
  }
  pub fn remove(&mut self, k: &K) -> Option<V> {
    match self.find(k) {
      Some(i) => self.e[i].take().map(|x| x.1),
      None => None,
    }
  }
  pub fn get(&self, k: &K) -> Option<&V> {
    match self.find(k) {
      Some(i) => self.e[i].as_ref().map(|x| &x.1),
      None => None,
    }
  }
  pub fn contains_key(&self, k: &K) -> bool {
    self.find(k).is_some()
  }
  pub fn len(&self) -> usize {
    let mut n = 0;
    if self.e[0].is_some() {
      n += 1;
    }
    if self.e[1].is_some() {
      n += 1;
    }
    if self.e[2].is_some() {
      n += 1;
    }
    n
  }
  pub fn is_empty(&self) -> bool {
    self.len() == 0
  }
  pub fn clear(&mut self) {
    self.e[0] = None;
    self.e[1] = None;
    self.e[2] = None;
  }
  pub fn iter(&self) -> ArrayMapIter<'_, K, V> {
    ArrayMapIter { m: self, i: 0, rev: REVERSE_ITER.load(std::sync::atomic::Ordering::Relaxed) }
  }
}
pub struct ArrayMapIter<'a, K, V> {
  m: &'a ArrayHashMap<K, V>,
  i: usize,
  rev: bool,
}
impl<'a, K, V> Iterator for ArrayMapIter<'a, K, V> {
  type Item = (&'a K, &'a V);
  fn next(&mut self) -> Option<(&'a K, &'a V)> {
    // loop-free (unrolled over MAP_CAP)
    macro_rules! step {
      () => {
        if self.i < MAP_CAP {
          let idx = if self.rev { MAP_CAP - 1 - self.i } else { self.i };
          self.i += 1;
          if let Some((k, v)) = &self.m.e[idx] {
            return Some((k, v));
          }
        }
      };
    }
    step!();
    step!();
    step!();
    None
  }
}
