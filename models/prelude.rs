#![feature(allocator_api)]
// Contract models shared by every Verus unit (DESIGN 3.3, Appendix A).  This file is NOT extracted from /repo: it is the
// specification side.  The StreamController contract below (SctlModel) is what the Kani K-refine harnesses check the real
// `StreamController` against (kani/sctl.rs, same table, transcribed as executable assertions).
use vstd::prelude::*;
use std::collections::VecDeque;
verus! {

// std functions without a vstd specification that handler bodies may use (assumption A1)
pub assume_specification<T: Default>[ core::mem::take::<T> ](dest: &mut T) -> (r: T)
    ensures r == *old(dest), call_ensures(T::default, (), *final(dest));

pub type Item = i64;
pub type Key = u8;

/// error payload: identity is the `id`; `clone` returns an equal value (the real RxError is an `Arc`, clone shares it)
#[derive(PartialEq, Eq, Structural, Debug)]
pub struct RxError { pub id: u64 }

impl Clone for RxError {
    fn clone(&self) -> (r: RxError) ensures r == *self { RxError { id: self.id } }
}

/// one event as observed by the downstream subscriber
pub enum Ev<T> { N(T), E(RxError), C }

/// crate::material::Material
pub enum Material<T> { Next(T), Error(RxError), Complete }

/// a user function held in a FunctionWrapper: total, deterministic (assumption A2)
#[verifier::external_body]
#[verifier::reject_recursive_types(In)]
#[verifier::reject_recursive_types(Out)]
pub struct FnModel<In, Out> { _p: core::marker::PhantomData<(In, Out)> }

pub uninterp spec fn fn_spec<In, Out>(f: &FnModel<In, Out>, x: In) -> Out;

impl<In, Out> FnModel<In, Out> {
    #[verifier::external_body]
    pub fn call(&self, x: In) -> (r: Out)
        ensures r == fn_spec(self, x),
    { unimplemented!() }

    /// FunctionWrapper::clone shares the same function
    #[verifier::external_body]
    pub fn clone(&self) -> (r: FnModel<In, Out>)
        ensures forall|x: In| fn_spec(&r, x) == fn_spec(self, x),
    { unimplemented!() }
}


/// a user callback whose *invocations* matter (tap): every call is recorded in order
pub struct EffFn<In> { pub calls: Ghost<Seq<In>> }
impl<In> EffFn<In> {
    #[verifier::external_body]
    pub fn call(&mut self, x: In)
        ensures final(self).calls@ == old(self).calls@.push(x),
    { unimplemented!() }
}

#[verifier::external_body]
pub fn arbitrary_value<T>() -> T { unimplemented!() }

pub open spec fn ended<T>(d: Seq<Ev<T>>) -> bool { d.len() > 0 && !(d.last() is N) }

pub open spec fn items_of<T>(s: Seq<T>) -> Seq<Ev<T>> { s.map_values(|x: T| Ev::N(x)) }

pub open spec fn fin_c<T>(d: Seq<Ev<T>>) -> Seq<Ev<T>> { if ended(d) { d } else { d.push(Ev::C) } }

pub open spec fn fin_e<T>(d: Seq<Ev<T>>, e: RxError) -> Seq<Ev<T>> { if ended(d) { d } else { d.push(Ev::E(e)) } }

/// Contract model of internals::stream_controller::StreamController seen from an operator handler.
///   out   : events delivered to the downstream subscriber so far
///   sub   : subscriber.is_subscribed()
///   ups   : serials of the upstream observers still registered (each of them is live)
///   quits : prophecy - the downstream subscriber unsubscribes itself from inside one of its callbacks during this step
///           (re-entrancy); when false the downstream is passive during the step
pub struct SctlModel<T> {
    pub out: Ghost<Seq<Ev<T>>>,
    pub sub: Ghost<bool>,
    pub ups: Ghost<Set<int>>,
    pub quits: Ghost<bool>,
    /// unit-specific ghost log (e.g. the attempt numbers of retry's resubscriptions); no StreamController method touches it
    pub aux: Ghost<Seq<int>>,
    /// serial the next `new_observer` will hand out (serials are never reused: every registered serial is below it)
    pub next_serial: Ghost<int>,
    /// single-upstream discipline (retry, retry_when, on_error_resume_next): a unit that requires it may subscribe a further upstream
    /// only while none is registered - the failed attempt is given up BEFORE the next one is brought up, so that the completion of
    /// the new attempt is not held back by the dead one.  No method changes the flag.
    pub single: Ghost<bool>,
}

/// an Observable value held by an operator (only its identity matters to the contracts)
#[derive(PartialEq, Eq, Structural)]
pub struct ObservableModel { pub id: u64 }
impl Clone for ObservableModel {
    fn clone(&self) -> (r: ObservableModel) ensures r == *self { ObservableModel { id: self.id } }
}

impl<T> SctlModel<T> {
    /// L2 invariant (proved on the real StreamController by the Kani K-refine obligations of C06):
    /// an ended subscription has no registered upstream, and a terminal in `out` means ended.
    pub open spec fn wf(&self) -> bool {
        &&& (!self.sub@ ==> self.ups@ =~= Set::<int>::empty())
        &&& (self.sub@ ==> !ended(self.out@))
        &&& (forall|k: int| self.ups@.contains(k) ==> k < self.next_serial@)
    }

    pub open spec fn dead_after(&self, pre: &SctlModel<T>) -> bool {
        &&& self.out@ == pre.out@
        &&& !self.sub@
        &&& self.ups@ =~= Set::<int>::empty()
        &&& self.quits@ == pre.quits@
        &&& self.aux@ == pre.aux@
        &&& self.next_serial@ == pre.next_serial@
        &&& self.single@ == pre.single@
    }

    #[verifier::external_body]
    pub fn is_subscribed(&self) -> (r: bool)
        ensures r == self.sub@,
    { unimplemented!() }

    #[verifier::external_body]
    pub fn sink_next(&mut self, x: T)
        requires old(self).wf(),
        ensures
            final(self).wf(),
            final(self).quits@ == old(self).quits@,
            final(self).aux@ == old(self).aux@,
            final(self).next_serial@ == old(self).next_serial@, final(self).single@ == old(self).single@,
            old(self).sub@ ==> final(self).out@ == old(self).out@.push(Ev::N(x)),
            old(self).sub@ && !old(self).quits@ ==> final(self).sub@ && final(self).ups@ == old(self).ups@,
            old(self).sub@ && final(self).sub@ ==> final(self).ups@ == old(self).ups@,
            !old(self).sub@ ==> final(self).dead_after(old(self)),
    { unimplemented!() }

    #[verifier::external_body]
    pub fn sink_error(&mut self, e: RxError)
        requires old(self).wf(),
        ensures
            final(self).wf(),
            old(self).sub@ ==> final(self).out@ == old(self).out@.push(Ev::E(e)),
            !old(self).sub@ ==> final(self).out@ == old(self).out@,
            !final(self).sub@,
            final(self).ups@ =~= Set::<int>::empty(),
            final(self).quits@ == old(self).quits@,
            final(self).aux@ == old(self).aux@,
            final(self).next_serial@ == old(self).next_serial@, final(self).single@ == old(self).single@,
    { unimplemented!() }

    #[verifier::external_body]
    pub fn sink_complete(&mut self, serial: &i32)
        requires old(self).wf(),
        ensures
            final(self).wf(),
            final(self).quits@ == old(self).quits@,
            final(self).aux@ == old(self).aux@,
            final(self).next_serial@ == old(self).next_serial@, final(self).single@ == old(self).single@,
            old(self).sub@ && old(self).ups@.remove(*serial as int) =~= Set::<int>::empty() ==> {
                &&& final(self).out@ == old(self).out@.push(Ev::C)
                &&& !final(self).sub@
                &&& final(self).ups@ =~= Set::<int>::empty()
            },
            old(self).sub@ && !(old(self).ups@.remove(*serial as int) =~= Set::<int>::empty()) ==> {
                &&& final(self).out@ == old(self).out@
                &&& final(self).sub@
                &&& final(self).ups@ =~= old(self).ups@.remove(*serial as int)
            },
            !old(self).sub@ ==> final(self).dead_after(old(self)),
    { unimplemented!() }

    #[verifier::external_body]
    pub fn sink_complete_force(&mut self)
        requires old(self).wf(),
        ensures
            final(self).wf(),
            old(self).sub@ ==> final(self).out@ == old(self).out@.push(Ev::C),
            !old(self).sub@ ==> final(self).out@ == old(self).out@,
            !final(self).sub@,
            final(self).ups@ =~= Set::<int>::empty(),
            final(self).quits@ == old(self).quits@,
            final(self).aux@ == old(self).aux@,
            final(self).next_serial@ == old(self).next_serial@, final(self).single@ == old(self).single@,
    { unimplemented!() }

    #[verifier::external_body]
    pub fn upstream_abort_observe(&mut self, serial: &i32)
        requires old(self).wf(),
        ensures
            final(self).wf(),
            final(self).out@ == old(self).out@,
            final(self).sub@ == old(self).sub@,
            final(self).ups@ =~= old(self).ups@.remove(*serial as int),
            final(self).quits@ == old(self).quits@,
            final(self).aux@ == old(self).aux@,
            final(self).next_serial@ == old(self).next_serial@, final(self).single@ == old(self).single@,
    { unimplemented!() }

    /// `E.inner_subscribe(self.new_observer(a, b, c))` inside a handler (rule R7'): a fresh upstream observer (serial not used
    /// before) is registered and the observable E is subscribed with it.  E's identity is recorded in the ghost log `aux`.  What E
    /// emits synchronously while being subscribed goes through the nested handlers (a unit of their own): here it can only extend
    /// `out`, may end the subscription, and may register/remove upstreams.
    #[verifier::external_body]
    pub fn subscribe_inner(&mut self, o: ObservableModel)
        requires old(self).wf(), old(self).sub@,
            old(self).single@ ==> old(self).ups@ =~= Set::<int>::empty(),
        ensures
            final(self).wf(),
            final(self).single@ == old(self).single@,
            final(self).aux@ == old(self).aux@.push(o.id as int),
            final(self).next_serial@ > old(self).next_serial@,
            // only serials handed out from now on can be new; everything registered before is either still there or gone
            forall|k: int| final(self).ups@.contains(k) && k < old(self).next_serial@ ==> old(self).ups@.contains(k),
            old(self).out@.is_prefix_of(final(self).out@),
            final(self).quits@ == old(self).quits@,
            !old(self).sub@ ==> final(self).out@ == old(self).out@ && !final(self).sub@,
    { unimplemented!() }

    #[verifier::external_body]
    pub fn finalize(&mut self)
        requires old(self).wf(),
        ensures
            final(self).wf(),
            final(self).out@ == old(self).out@,
            !final(self).sub@,
            final(self).ups@ =~= Set::<int>::empty(),
            final(self).quits@ == old(self).quits@,
            final(self).aux@ == old(self).aux@,
            final(self).next_serial@ == old(self).next_serial@, final(self).single@ == old(self).single@,
    { unimplemented!() }
}


/// Contract model of crate::observer::Observer as seen by a source (creation function) that emits into it (DESIGN A.1):
///   out: events delivered to the subscriber's callbacks;  sub: is_subscribed();  quits: the subscriber unsubscribes itself from
///   inside one of its callbacks during this run (re-entrancy prophecy); when false the subscriber is passive.
/// Checked against the real Observer by the Kani K-refine obligations of C01/C05.
pub struct ObsModel<T> {
    pub out: Ghost<Seq<Ev<T>>>,
    pub sub: Ghost<bool>,
    pub quits: Ghost<bool>,
    /// identities of the observables this observer has been handed to (`o.inner_subscribe(s)`), in order
    pub subs: Ghost<Seq<int>>,
    /// number of `next` calls made while the subscriber was no longer subscribed (C06, producer side: a producer that polls
    /// is_subscribed() before every emission keeps this at 0)
    pub late: Ghost<nat>,
}

impl<T> ObsModel<T> {
    pub open spec fn wf(&self) -> bool { self.sub@ ==> !ended(self.out@) }
    pub open spec fn fresh(&self) -> bool { self.sub@ && self.out@ =~= Seq::<Ev<T>>::empty() && self.late@ == 0 }

    #[verifier::external_body]
    pub fn is_subscribed(&self) -> (r: bool)
        ensures r == self.sub@,
    { unimplemented!() }

    #[verifier::external_body]
    pub fn next(&mut self, x: T)
        requires old(self).wf(),
        ensures
            final(self).wf(),
            final(self).quits@ == old(self).quits@,
            old(self).sub@ ==> final(self).out@ == old(self).out@.push(Ev::N(x)),
            old(self).sub@ && !old(self).quits@ ==> final(self).sub@,
            !old(self).sub@ ==> final(self).out@ == old(self).out@ && !final(self).sub@,
            final(self).late@ == old(self).late@ + (if old(self).sub@ { 0nat } else { 1nat }),
    { unimplemented!() }

    #[verifier::external_body]
    pub fn error(&mut self, e: RxError)
        requires old(self).wf(),
        ensures
            final(self).wf(),
            final(self).quits@ == old(self).quits@, final(self).late@ == old(self).late@,
            old(self).sub@ ==> final(self).out@ == old(self).out@.push(Ev::E(e)),
            !old(self).sub@ ==> final(self).out@ == old(self).out@,
            !final(self).sub@,
    { unimplemented!() }

    #[verifier::external_body]
    pub fn complete(&mut self)
        requires old(self).wf(),
        ensures
            final(self).wf(),
            final(self).quits@ == old(self).quits@, final(self).late@ == old(self).late@,
            old(self).sub@ ==> final(self).out@ == old(self).out@.push(Ev::C),
            !old(self).sub@ ==> final(self).out@ == old(self).out@,
            !final(self).sub@,
    { unimplemented!() }
}

/// generic safety of one handler step (C01/C05/C06 through operators): output only grows, a dead controller stays dead and silent
pub open spec fn step_safe<T>(pre: &SctlModel<T>, post: &SctlModel<T>) -> bool {
    &&& post.wf()
    &&& pre.out@.is_prefix_of(post.out@)
    &&& (!pre.sub@ ==> post.out@ == pre.out@ && !post.sub@)
    &&& post.quits@ == pre.quits@
}

/// the state of a live single-upstream operator whose definition says the downstream has seen `d`
pub open spec fn live_post<T>(sctl: &SctlModel<T>, d: Seq<Ev<T>>, serial: int) -> bool {
    &&& sctl.out@ == d
    &&& sctl.sub@ == !ended(d)
    &&& (sctl.sub@ ==> sctl.ups@ =~= set![serial])
}

pub proof fn lemma_items_push<T>(xs: Seq<T>, x: T)
    ensures items_of(xs.push(x)) =~= items_of(xs).push(Ev::N(x)),
{
}

pub proof fn lemma_push_last<T>(xs: Seq<T>, x: T)
    ensures xs.push(x).drop_last() =~= xs, xs.push(x).last() == x, xs.push(x).len() == xs.len() + 1,
{
}

pub proof fn lemma_items_not_ended<T>(xs: Seq<T>)
    ensures !ended(items_of(xs)),
{
}

} // verus!
