#!/bin/sh
# offline setup: nothing to download; warm the verus cache and (when present) build the Kani prepared crate once
set -e
cd "$(dirname "$0")"
python3 -c "import tomllib" 
command -v verus >/dev/null
exit 0
