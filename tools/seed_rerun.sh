#!/bin/bash
# usage: seed_rerun.sh <seed-id> [tier]  -- re-runs ./check on /repo with the kept patch applied (undone afterwards) and refreshes
# check_output/detected in seeded/<id>/meta.json.  The confirmation fields (demo/suite results) are kept as recorded.
set -u
id=$1; tier=${2:-quick}
d=/verif/seeded/$id
prop=$(python3 -c "import json;print(json.load(open('$d/meta.json'))['breaks_property'])")
cd /repo && git diff --quiet || { echo "/repo not clean"; exit 2; }
git apply $d/patch.diff || { echo "patch does not apply"; exit 2; }
cd /verif && res=$(VERIF_NO_EVIDENCE=1 timeout 3600 ./check $prop --tier $tier 2>&1 | grep -E "VIOLATION|UNDECIDED|tier=" | cut -c1-400)
git -C /repo checkout -- .
python3 - "$id" "$tier" "$res" <<'PY'
import json,sys
id,tier,res=sys.argv[1:4]
p='/verif/seeded/%s/meta.json'%id
d=json.load(open(p))
if 'first_run' not in d: d['first_run']={'check_output': d.get('check_output'), 'detected': d.get('detected')}
d['check_output']=res.split('\n'); d['detected']='VIOLATION' in res
d['ran']='./check %s --tier %s with the patch applied to /repo (git apply; undone afterwards)' % (d['breaks_property'], tier)
json.dump(d,open(p,'w'),indent=1)
print(id, 'detected' if d['detected'] else 'MISSED', [l for l in d['check_output'] if 'tier=' in l])
PY
