#!/usr/bin/env python3
"""prints the markdown table of kept seeded changes (seeded/*/meta.json) for DESIGN.md section 9"""
import glob, json, os
VERIF = os.path.dirname(os.path.dirname(os.path.abspath(__file__)))
rows = []
for m in sorted(glob.glob(os.path.join(VERIF, 'seeded', '*', 'meta.json'))):
    d = json.load(open(m))
    if d.get('breaks_property') == 'none':
        continue
    obl = [l for l in d.get('check_output', []) if l.startswith('VIOLATION')]
    names = []
    for l in obl:
        for part in l.split():
            if part.startswith('obligation='):
                names.append(part.split('=', 1)[1])
    und = [l for l in d.get('check_output', []) if l.startswith('UNDECIDED')]
    first = d.get('first_run')
    fr = ''
    if first is not None and not first.get('detected'):
        fr = ' (first run: ' + ('undecided, exit 2' if any(l.startswith('UNDECIDED') for l in first.get('check_output') or []) else 'missed') + ')'
    rows.append('| %s | %s | %s | %s | %s |' % (d['seed'], d['breaks_property'], d['needs_to_manifest'].replace('|', '/'),
                                             ('yes' if d['detected'] else ('undecided (exit 2)' if und else '**no**')) + fr,
                                             ', '.join('`%s`' % n for n in names[:4]) + (' ...' if len(names) > 4 else '')))
print('| seeded change | property | needs, in order to manifest | detected by the quick check | failed obligations |')
print('|---|---|---|---|---|')
print('\n'.join(rows))
