#!/usr/bin/env python3
"""prints the markdown table of kept seeded changes (seeded/*/meta.json) for DESIGN.md section 9"""
import glob, json, os
VERIF = os.path.dirname(os.path.dirname(os.path.abspath(__file__)))
rows = []
for m in sorted(glob.glob(os.path.join(VERIF, 'seeded', '*', 'meta.json'))):
    d = json.load(open(m))
    obl = [l for l in d.get('check_output', []) if l.startswith('VIOLATION')]
    names = []
    for l in obl:
        for part in l.split():
            if part.startswith('obligation='):
                names.append(part.split('=', 1)[1])
    und = [l for l in d.get('check_output', []) if l.startswith('UNDECIDED')]
    rows.append('| %s | %s | %s | %s | %s |' % (d['seed'], d['breaks_property'], d['needs_to_manifest'].replace('|', '/'),
                                             'yes' if d['detected'] else ('undecided (exit 2)' if und else '**no**'),
                                             ', '.join('`%s`' % n for n in names[:4]) + (' ...' if len(names) > 4 else '')))
print('| seeded change | property | needs, in order to manifest | detected by the quick check | failed obligations |')
print('|---|---|---|---|---|')
print('\n'.join(rows))
