"""vgen: assemble one Verus file per unit from  models/prelude.rs + contracts/<unit>.toml + text extracted from /repo.

Generated obligations (ids):  <unit>.init, <unit>.next, <unit>.error, <unit>.complete, <unit>.<helper>, plus lemmas named in
the sidecar.  A second file holds the must-fail twins (same signature and `requires`, `ensures false`, empty body).
"""
import json
import os
import re
import sys
import tomllib
from typing import Dict, List

sys.path.insert(0, os.path.dirname(__file__))
import rxprep
from rxprep import NotExtractable, AnchorLost
from rxlex import LexError

VERIF = os.path.dirname(os.path.dirname(os.path.abspath(__file__)))


class UnitError(Exception):
    """undecided (exit 2) conditions: lost anchor, not extractable, skeleton not recognised"""
    def __init__(self, kind, msg):
        super().__init__(msg)
        self.kind = kind


def load_sidecar(path):
    with open(path, 'rb') as f:
        return tomllib.load(f)


def _fmt_list(xs, ind='        '):
    return ''.join('%s%s,\n' % (ind, x) for x in xs)


def reconcile_cells(sk, cells):
    """a state cell that was merely RENAMED in the source: exactly one cell of the sidecar is missing and exactly one cell of the
    create-closure is unknown to the sidecar -> they are the same cell (alpha-renaming; types are checked by Verus afterwards)"""
    missing = [c for c in cells if c not in sk.cells and c not in sk.outer_cells]
    extra = [c for c in sk.cells if c not in cells]
    if len(missing) == 1 and len(extra) == 1:
        sk.cells[missing[0]] = sk.cells.pop(extra[0])
        sk.alias[extra[0]] = missing[0]


def gen_source_unit(sc, sidecar_path, repo):
    """creation functions: the closure passed to Observable::create is the unit; its parameter becomes `&mut ObsModel<OUT>`"""
    op = sc['op']
    src_path = os.path.join(repo, sc['file'])
    if not os.path.exists(src_path):
        raise UnitError('anchor', 'file %s missing' % sc['file'])
    src = open(src_path).read()
    try:
        toks = rxprep.strip_test_mods(rxprep.tree(src))
        body, _ = rxprep.find_fn(toks, sc['fn'], None)
        creates = rxprep.find_calls(body.kids, 'create')
        if len(creates) != 1:
            raise AnchorLost('expected exactly one Observable::create in fn %s' % sc['fn'])
        cl = rxprep.parse_closure(creates[0][2].kids, src)
        if cl is None or len(cl.params) != 1:
            raise AnchorLost('create argument is not a one-parameter closure')
    except (AnchorLost, LexError) as e:
        raise UnitError('anchor', str(e))
    sk = rxprep.Skeleton()
    sk_problems = []
    cells = sc.get('cells', {})
    for c in cells:
        sk.cells[c] = ('', 0)
    # the fn body must be just the create call (no other statements that could emit), unless the sidecar says that captured state
    # is prepared first (`allow_outer_lets`)
    stmts = rxprep.split_statements(body.kids)
    eager_call = None
    if len(stmts) != 1 and not sc.get('allow_outer_lets'):
        sk_problems.append('fn %s has statements besides Observable::create(..)' % sc['fn'])
        for st in stmts[:-1]:
            for k, t in enumerate(st):
                if t.kind == 'ident' and t.text in sc.get('captures', {}) and k + 1 < len(st) and st[k + 1].is_group('(') and not (k > 0 and st[k - 1].is_p('.')):
                    eager_call = t.text
    if sc.get('allow_outer_lets'):
        for st in stmts[:-1]:
            a = rxprep._alias(st) if st and st[0].is_id('let') else None
            txt = src[st[0].start:st[-1].end]
            if not (st and st[0].is_id('let') and re.fullmatch(r'let\s+(\w+)\s*=\s*(Arc::clone\(&self\.\w+\)|self\.\1(\.clone\(\))?)', re.sub(r'\s+', ' ', txt).strip().replace('( &', '(&'))):
                sk_problems.append('unrecognised statement before Observable::create: `%s`' % txt)
    if 'only_stmt' in sc:
        inner = rxprep.split_statements(cl.body[0].kids) if len(cl.body) == 1 and cl.body[0].is_group('{') else []
        k = sc['only_stmt']
        if k >= len(inner):
            raise UnitError('anchor', 'create-closure has no statement #%d' % k)
        cl = rxprep.Closure(cl.toks, cl.params, inner[k], cl.is_move)
    captures = sc.get('captures', {})
    try:
        ex = rxprep.rewrite_body(cl, sk, src, op, captures, {}, allow_calls=tuple(sc.get('allow_calls', [])))
    except NotExtractable as e:
        raise UnitError('not_extractable', '%s: %s' % (op, e))
    pname = ex.params[0][0]
    tout = sc.get('out', 'Item')
    params = ['%s: &mut %s' % (c, t) for c, t in cells.items()] + ['%s: %s' % (c, t) for c, t in captures.items()] + ['%s: &mut ObsModel<%s>' % (pname, tout)] + sc.get('ghost_params', [])
    def subst(t):
        return t.replace('$s', pname)
    req = ['old(%s).wf()' % pname] + [subst(x) for x in sc.get('requires', [])]
    ens = [subst(x) for x in sc.get('ensures', [])]
    body_txt = insert_loop_invariants(ex.text, [subst(x) for x in sc.get('invariants', [])], sc.get('for_names'), sc.get('loop_kinds'))
    fn_name = '%s_source' % op
    header = '// extracted: %s chars %d..%d (line %d) sha256=%s\n// replacements: %s\n' % (
        sc['file'], ex.span[0], ex.span[1], rxprep.line_of(src, ex.span[0]), ex.sha256, json.dumps(ex.replacements))
    f = header + ''.join(a + '\n' for a in sc.get('fn_attrs', [])) + 'fn %s%s(%s)\n    requires\n%s    ensures\n%s{\n' % (fn_name, sc.get('generics', ''), ', '.join(params), _fmt_list(req), _fmt_list(ens))
    if sc.get('proof_pre'):
        f += '    proof { %s }\n' % subst(sc['proof_pre'])
    f += '    let _unit: () = /*BEGIN-EXTRACTED*/ %s /*END-EXTRACTED*/;\n' % body_txt
    if sc.get('proof'):
        f += '    proof { %s }\n' % subst(sc['proof'])
    f += '}\n'
    twin = 'fn %s_twin%s(%s)\n    requires\n%s    ensures false,\n{\n}\n' % (fn_name, sc.get('generics', ''), ', '.join(params), _fmt_list(req))
    fn_names = [fn_name]
    if sc.get('c06_ensures'):
        # second obligation over the same extracted text (C06, producer side), with its own loop invariants: the downstream may end
        # the subscription at any emission (`quits` unconstrained)
        body6 = insert_loop_invariants(ex.text, [subst(x) for x in sc.get('c06_invariants', [])], sc.get('for_names'), sc.get('loop_kinds'))
        f += '\n' + header + ''.join(a + '\n' for a in sc.get('fn_attrs', [])) + 'fn %s_c06%s(%s)\n    requires\n%s    ensures\n%s{\n' % (
            fn_name, sc.get('generics', ''), ', '.join(params), _fmt_list(req), _fmt_list([subst(x) for x in sc['c06_ensures']]))
        f += '    let _unit: () = /*BEGIN-EXTRACTED*/ %s /*END-EXTRACTED*/;\n}\n' % body6
        fn_names.append(fn_name + '_c06')
    prelude = open(os.path.join(VERIF, 'models', 'prelude.rs')).read()
    text = prelude + '\nverus! {\n// ---- specification (contracts/%s) ----\n%s\n// ---- extracted from /repo ----\n%s\n} // verus!\nfn main() {}\n' % (
        os.path.basename(sidecar_path), sc.get('spec', ''), f)
    twin_text = prelude + '\nverus! {\n%s\n%s\n} // verus!\nfn main() {}\n' % (sc.get('spec', ''), twin)
    meta = [{'fn': n, 'file': sc['file'], 'line': rxprep.line_of(src, ex.span[0]), 'span': list(ex.span),
             'sha256': ex.sha256, 'replacements': ex.replacements, 'loops': ex.loops} for n in fn_names]
    return {'op': op, 'text': text, 'twins': twin_text, 'facts': {'create_param': pname}, 'skeleton_problems': sk_problems,
            'definite_facts': {'work_at_subscription_time': (eager_call is None, 'the captured function `%s` is called when the observable is BUILT, outside the closure passed to Observable::create: its result is shared by every subscription instead of being computed per subscription' % eager_call)},
            'outer_cells': [], 'extracted': meta, 'props': sc.get('props', []), 'known_fail': {},
            'fn_names': fn_names, 'twin_names': [fn_name + '_twin']}


def gen_multi_unit(sc, sidecar_path, repo):
    """operators with several upstream observers (C03): one or more `new_observer` calls; every handler has an explicit contract
    over a ghost history `h` of tagged input events.  Skeleton fact: every observer is created (registered with the
    controller) before the first inner_subscribe."""
    op = sc['op']
    src_path = os.path.join(repo, sc['file'])
    if not os.path.exists(src_path):
        raise UnitError('anchor', 'file %s missing' % sc['file'])
    src = open(src_path).read()
    try:
        sk = rxprep.analyse(src, sc.get('fn', 'execute'), sc.get('impl'))
    except (AnchorLost, LexError) as e:
        raise UnitError('anchor', str(e))
    observers = sc['observer']
    reconcile_cells(sk, sc.get('cells', {}))
    sk.mut_on_read = set(sc.get('mut_on_read', []))
    captures = dict(sc.get('captures', {}))
    cap_pos = {}
    # a nested fn that was merely RENAMED: the sidecar names exactly one helper, the create-closure has exactly one nested fn
    hnames = list(sc.get('helper', {}).keys())
    if len(hnames) == 1 and hnames[0] not in sk.helpers and len(sk.fn_helpers) == 1:
        actual = next(iter(sk.fn_helpers))
        sc = dict(sc)
        sc['helper'] = {actual: sc['helper'][hnames[0]]}
        if sc.get('captures_from_fn') == hnames[0]:
            sc['captures_from_fn'] = actual
    if sc.get('captures_from_fn'):
        fnh = sk.helpers.get(sc['captures_from_fn'])
        if fnh is None:
            raise UnitError('anchor', 'nested fn %s not found' % sc['captures_from_fn'])
        k = 0
        for (pname, _pt), ty in zip(fnh.params, sc['capture_types']):
            k += 1
            cap_pos['$c%d' % k] = pname
            if ty:
                captures[pname] = ty
    def capsub(t):
        for ph, nm in sorted(cap_pos.items(), key=lambda kv: -len(kv[0])):
            t = t.replace(ph, nm)
        return t
    cells = sc.get('cells', {})
    tout = sc.get('out', 'Item')
    hist_t = sc['hist']
    sk_problems = []
    if sk.sctl is None or sk.sctl_arg != sk.create_param:
        sk_problems.append('StreamController::new(<create-closure parameter>) not found')
    if len(sk.handlers_all) != len(observers):
        sk_problems.append('expected %d new_observer(..) calls, found %d' % (len(observers), len(sk.handlers_all)))
    want_subs = sc.get('inner_subscribes', len(observers))
    if sk.n_inner_subscribe != want_subs:
        sk_problems.append('expected %d inner_subscribe calls, found %d' % (want_subs, sk.n_inner_subscribe))
    # prepare-before-subscribe: all new_observer calls textually precede the first inner_subscribe
    body = sk.body_group
    no = [p[i].start for p, i, g in rxprep.find_calls(body.kids, 'new_observer')]
    isub_end = [g.end for p, i, g in rxprep.find_calls(body.kids, 'inner_subscribe')]
    # an inner_subscribe(..) call that is completely finished before some new_observer(..) call starts
    late_registration = bool(no and isub_end and max(no) > min(isub_end) and not sc.get('allow_late_registration'))
    for c in cells:
        if c not in sk.cells and c not in sk.outer_cells:
            sk_problems.append('state cell `%s` not found' % c)
    for c in sk.cells:
        if c not in cells:
            sk_problems.append('state cell `%s` is not covered by the contract' % c)
    allowed_unknown = sc.get('allow_statements', [])
    unknown = [u for u in sk.unknown if not any(re.sub(r'\s+', '', a) in re.sub(r'\s+', '', u) for a in allowed_unknown)]
    if unknown:
        sk_problems.append('unrecognised statements in the create-closure: %r' % unknown)
    for name, txt in sk.outer_lets.items():
        if not re.fullmatch(r'let\s+(mut\s+)?\w+\s*=\s*self\s*\.\s*\w+\s*(\.\s*clone\s*\(\s*\))?', txt.strip()):
            sk_problems.append('unrecognised statement in execute before create: `%s`' % txt)
    if len(sk.handlers_all) != len(observers):
        raise UnitError('skeleton', '; '.join(sk_problems))
    all_cells = list(cells.keys())
    helper_sigs = {h: ([] if h in sk.fn_helpers else all_cells + list(captures.keys()) + ['sctl']) for h in sk.helpers}
    fns, twins, meta = [], [], []
    names = ['next', 'error', 'complete']

    def emit(fn_name, cl, ptypes, hc, extra_params=None, is_helper=False, fn_helper=False):
        try:
            ex = rxprep.rewrite_body(cl, sk, src, op, captures, helper_sigs)
        except NotExtractable as e:
            raise UnitError('not_extractable', '%s: %s' % (fn_name, e))
        pn = [p for p, _ in ex.params]
        def subst(t):
            t = capsub(t)
            if fn_helper:
                for k in range(len(pn), 0, -1):
                    t = t.replace('$%d' % k, pn[k - 1])
                return t
            t = t.replace('$serial', pn[0]) if pn else t
            if len(pn) > 1:
                t = t.replace('$x', pn[1]).replace('$e', pn[1])
            return t
        if fn_helper:
            params = ['%s: %s' % (p, ptypes[k]) for k, p in enumerate(pn)]
        else:
            params = ['%s: &mut %s' % (c, cells[c]) for c in all_cells] + ['%s: %s' % (c, t) for c, t in captures.items()]
            params += ['sctl: &mut SctlModel<%s>' % tout] + ['%s: %s' % (p, ptypes[k]) for k, p in enumerate(pn)]
        if not is_helper:
            params += ['Ghost(h): Ghost<%s>' % hist_t] + list(extra_params or []) + [subst(g) for g in sc.get('ghost_params', [])]
        # single-upstream discipline (prelude: SctlModel.single): opted into by `single_upstream = true`; every other multi-input unit
        # states that it does NOT follow it, so that subscribe_inner's `single ==> no upstream registered` is vacuous for it
        disc = 'old(sctl).single@' if sc.get('single_upstream') else '!old(sctl).single@'
        req = ['old(sctl).wf()', disc] + ([] if is_helper else [subst(x) for x in sc.get('requires_all', [])]) + [subst(x) for x in hc.get('requires', [])]
        ens = ['step_safe(old(sctl), final(sctl))'] + [subst(x) for x in hc.get('ensures', [])]
        body_txt = insert_loop_invariants(ex.text, [subst(x) for x in hc.get('invariants', [])], hc.get('for_names'), hc.get('loop_kinds'))
        header = '// extracted: %s chars %d..%d (line %d) sha256=%s\n// replacements: %s\n' % (
            sc['file'], ex.span[0], ex.span[1], rxprep.line_of(src, ex.span[0]), ex.sha256, json.dumps(ex.replacements))
        ret = hc.get('returns')
        if ret:
            ens = [subst(x) for x in hc.get('ensures', [])]   # a value-returning helper: its own contract only
        f = header + 'fn %s(%s)%s\n    requires\n%s    ensures\n%s{\n' % (fn_name, ', '.join(params), (' -> (r: %s)' % ret) if ret else '', _fmt_list(req), _fmt_list(ens))
        if hc.get('proof_pre'):
            f += '    proof { %s }\n' % subst(hc['proof_pre'])
        if ret:
            f += '    let r: %s = /*BEGIN-EXTRACTED*/ %s /*END-EXTRACTED*/;\n' % (ret, body_txt)
        else:
            f += '    let _unit: () = /*BEGIN-EXTRACTED*/ %s /*END-EXTRACTED*/;\n' % body_txt
        if hc.get('proof'):
            f += '    proof { %s }\n' % subst(hc['proof'])
        f += '    r\n}\n' if ret else '}\n'
        fns.append(f)
        twins.append('fn %s_twin(%s)%s\n    requires\n%s    ensures false,\n{\n%s}\n' % (fn_name, ', '.join(params), (' -> (r: %s)' % ret) if ret else '', _fmt_list(req), ('    arbitrary_value()\n' if ret else '')))
        c06 = [subst(x) for x in hc.get('c06_ensures', [])]
        if c06 and not ret:
            f6 = header + 'fn %s_c06(%s)\n    requires\n%s    ensures\n%s{\n' % (fn_name, ', '.join(params), _fmt_list(req), _fmt_list(['final(sctl).wf()'] + c06))
            if hc.get('proof_pre'):
                f6 += '    proof { %s }\n' % subst(hc['proof_pre'])
            f6 += '    let _unit: () = /*BEGIN-EXTRACTED*/ %s /*END-EXTRACTED*/;\n' % body_txt
            if hc.get('proof'):
                f6 += '    proof { %s }\n' % subst(hc['proof'])
            f6 += '}\n'
            fns.append(f6)
            meta.append({'fn': fn_name + '_c06', 'file': sc['file'], 'line': rxprep.line_of(src, ex.span[0]), 'span': list(ex.span),
                         'sha256': ex.sha256, 'replacements': ex.replacements, 'loops': ex.loops})
        meta.append({'fn': fn_name, 'file': sc['file'], 'line': rxprep.line_of(src, ex.span[0]), 'span': list(ex.span),
                     'sha256': ex.sha256, 'replacements': ex.replacements, 'loops': ex.loops})

    for k, ob in enumerate(observers):
        cls = sk.handlers_all[k]
        item_t = ob.get('item', 'Item')
        pt = {'next': ['i32', item_t], 'error': ['i32', 'RxError'], 'complete': ['i32']}
        for which, cl in zip(names, cls):
            hc = ob.get(which, {})
            emit('%s_%s_%s' % (op, ob['name'], which), cl, pt[which], hc)
    for hname, cl in sk.helpers.items():
        hc = sc.get('helper', {}).get(hname)
        if hc is None:
            if hname in sc.get('ignore_helpers', []):
                continue
            sk_problems.append('helper closure `%s` has no contract' % hname)
            continue
        emit('%s_%s' % (op, hname), cl, hc['param_types'], hc, is_helper=True, fn_helper=hname in sk.fn_helpers)
    # start: the statements of the create-closure that run at subscription time after the controller exists (e.g. the first
    # `do_subscribe(1, count, ..)` of retry) are extracted as one more obligation instead of being white-listed
    st_c = sc.get('start')
    if st_c:
        todo = [t for t, txt in zip(sk.unknown_toks, sk.unknown) if not any(re.sub(r'\s+', '', a) in re.sub(r'\s+', '', txt) for a in allowed_unknown)]
        if len(todo) != 1:
            sk_problems.append('start: expected exactly one statement after StreamController::new besides the recognised ones, found %d' % len(todo))
        else:
            unknown = []
            sk_problems[:] = [p_ for p_ in sk_problems if not p_.startswith('unrecognised statements in the create-closure')]
            cl0 = rxprep.Closure(todo[0], [], todo[0], False)
            scap = st_c.get('captures', {})
            try:
                ex0 = rxprep.rewrite_body(cl0, sk, src, op, scap, helper_sigs)
            except NotExtractable as e:
                raise UnitError('not_extractable', '%s_start: %s' % (op, e))
            params0 = ['%s: %s' % (c, t) for c, t in scap.items()] + ['sctl: &mut SctlModel<%s>' % tout]
            req0 = ['old(sctl).wf()', ('old(sctl).single@' if sc.get('single_upstream') else '!old(sctl).single@'), 'old(sctl).sub@', 'old(sctl).out@ =~= Seq::<Ev<%s>>::empty()' % tout, 'old(sctl).aux@ =~= Seq::<int>::empty()',
                    'old(sctl).ups@ =~= Set::<int>::empty()'] + st_c.get('requires', [])    # the controller has just been created
            f0 = '// extracted (start): %s chars %d..%d (line %d) sha256=%s\n// replacements: %s\nfn %s_start(%s)\n    requires\n%s    ensures\n%s{\n    let _unit: () = /*BEGIN-EXTRACTED*/ { %s; } /*END-EXTRACTED*/;\n%s}\n' % (
                sc['file'], ex0.span[0], ex0.span[1], rxprep.line_of(src, ex0.span[0]), ex0.sha256, json.dumps(ex0.replacements),
                op, ', '.join(params0), _fmt_list(req0), _fmt_list(st_c.get('ensures', [])), ex0.text,
                ('    proof { %s }\n' % st_c['proof']) if st_c.get('proof') else '')
            fns.append(f0)
            twins.append('fn %s_start_twin(%s)\n    requires\n%s    ensures false,\n{\n}\n' % (op, ', '.join(params0), _fmt_list(req0)))
            meta.append({'fn': '%s_start' % op, 'file': sc['file'], 'line': rxprep.line_of(src, ex0.span[0]), 'span': list(ex0.span),
                         'sha256': ex0.sha256, 'replacements': ex0.replacements, 'loops': 0})
    # init
    ic = sc.get('init', {})
    lets = []
    for c in all_cells:
        init = (sk.cells.get(c) or (sk.outer_cells.get(c), 0))[0]
        lets.append('    let %s: %s = /*BEGIN-EXTRACTED*/ %s /*END-EXTRACTED*/;\n' % (c, cells[c], init))
    fn_names = [m['fn'] for m in meta]
    if all_cells and not sc.get('skip_init'):
        ret_t = '(' + ', '.join(cells[c] for c in all_cells) + (',' if len(all_cells) == 1 else '') + ')'
        init_fn = 'fn %s_init(%s) -> (r: %s)\n    requires\n%s    ensures\n%s{\n%s    (%s)\n}\n' % (
            op, ', '.join('%s: %s' % (c, t) for c, t in captures.items() if not t.startswith('&mut')), ret_t,
            _fmt_list(ic.get('requires', [])), _fmt_list(ic.get('ensures', [])), ''.join(lets),
            ', '.join(all_cells) + (',' if len(all_cells) == 1 else ''))
        fns.insert(0, init_fn)
        fn_names.append('%s_init' % op)
    prelude = open(os.path.join(VERIF, 'models', 'prelude.rs')).read()
    text = prelude + '\nverus! {\n// ---- specification (contracts/%s) ----\n%s\n// ---- extracted from /repo ----\n%s\n} // verus!\nfn main() {}\n' % (
        os.path.basename(sidecar_path), sc.get('spec', ''), '\n'.join(fns))
    twin_text = prelude + '\nverus! {\n%s\n%s\n} // verus!\nfn main() {}\n' % (sc.get('spec', ''), '\n'.join(twins))
    # observers built inside an iterator adapter (`(0..n).map(move |_| { .. sctl.new_observer(..) })`) are only registered when the
    # iterator is driven: the adapter must be collected eagerly (from_iter / collect) before the first inner_subscribe
    for st_toks in rxprep.split_statements(body.kids):
        if rxprep.find_calls(st_toks, 'new_observer'):
            txt = re.sub(r'\s+', '', src[st_toks[0].start:st_toks[-1].end])
            if '.map(' in txt and 'from_iter(' not in txt and '.collect' not in txt and not sc.get('allow_late_registration'):
                late_registration = True
    definite = {'prepare_before_subscribe': (not late_registration, 'an upstream observer is registered with the controller only after another input has already been subscribed: an input that signals synchronously ends the subscription before the late observer exists, and that observer is never torn down')}
    if sc.get('subscribe_order'):
        # the receivers of the inner_subscribe calls, in textual order, e.g. ["trigger", "source"]: the gate must be listening before
        # a cold source runs to completion inside its own subscribe call
        recv = []
        for par, idx, g in rxprep.find_calls(body.kids, 'inner_subscribe'):
            if idx >= 2 and par[idx - 1].is_p('.') and par[idx - 2].kind == 'ident':
                recv.append(sk.canon(par[idx - 2].text))
        ok = recv == sc['subscribe_order']
        definite['subscribe_order'] = (ok, 'the inputs are subscribed in the order %s, the contract needs %s (a trigger that signals synchronously must be subscribed before a cold source runs)' % (recv, sc['subscribe_order']))
    return {'op': op, 'text': text, 'twins': twin_text, 'facts': skeleton_facts(sk, sc, src), 'skeleton_problems': sk_problems,
            'definite_facts': definite,
            'outer_cells': list(sk.outer_cells), 'extracted': meta, 'props': sc.get('props', []), 'known_fail': {},
            'fn_names': fn_names, 'twin_names': [m['fn'] + '_twin' for m in meta if not m['fn'].endswith('_c06')]}


def gen_method_unit(sc, sidecar_path, repo):
    """`&self` methods lifted whole (R6): `fn NAME(&self, params..)` of `impl TYPE` becomes `fn(self_: &mut MODEL, params..)` with
         self.FIELD.write().unwrap() -> (&mut self_.FIELD)      self.FIELD.read().unwrap() -> (&self_.FIELD)
         self.F.METHOD(..) for F in `flatten`  ->  self_.F__METHOD(..)   (a method of the composite model, which can therefore
                                                    state in its `requires` what the OTHER fields must already hold at that moment)
       several methods of one type can be listed in one sidecar ([[method]])."""
    import rxlex
    op = sc['op']
    src_path = os.path.join(repo, sc['file'])
    if not os.path.exists(src_path):
        raise UnitError('anchor', 'file %s missing' % sc['file'])
    src = open(src_path).read()
    toks = rxprep.strip_test_mods(rxprep.tree(src))
    fns, twins, meta, sk_problems = [], [], [], []
    model = sc['model']
    flatten = sc.get('flatten', [])
    fields = sc.get('fields', [])
    for m in sc['method']:
        try:
            body, hdr = rxprep.find_fn(toks, m['fn'], sc['impl'])
        except (AnchorLost, LexError) as e:
            if m.get('optional'):
                continue      # a private helper the other methods may or may not use; without it they are checked on their own
            raise UnitError('anchor', str(e))
        start, end = body.start, body.end
        reps = []
        world = sc.get('world')
        self_methods = sc.get('self_methods', [])
        handles = sc.get('handles', [])
        local_alias = {}
        def scan(ts):
            i = 0
            while i < len(ts):
                t = ts[i]
                if handles and t.is_id('let'):
                    # `let A = self.F.clone();` for a listed handle field F: A is another handle on F (kept, rewritten to self_.F.clone())
                    jh = rxprep.match_seq(ts, i, ['let', 'ident', '=', 'self', '.', 'ident', '.', 'clone', '()', ';'])
                    if jh > 0 and ts[i + 5].text in handles:
                        local_alias[ts[i + 1].text] = ts[i + 5].text
                        reps.append((ts[i + 3].start, ts[i + 3].end, 'self_'))
                        i = jh; continue
                if handles and world and t.is_id('self'):
                    # R13 (connect idiom) on a field: `self.G.subscribe(<three plain forwarders to clones of self.F>)`
                    js = rxprep.match_seq(ts, i, ['self', '.', 'ident', '.', 'subscribe', '(…)'])
                    if js > 0 and ts[i + 2].text in handles:
                        g = ts[js - 1]
                        parts = rxprep.split_commas(g.kids)
                        if parts and not parts[-1]:
                            parts = parts[:-1]
                        names = []
                        if len(parts) == 3:
                            for part, pat in zip(parts, rxprep.FORWARDERS):
                                m_ = re.fullmatch(pat, re.sub(r'\s+', '', src[part[0].start:part[-1].end]))
                                names.append(m_.group(m_.lastindex) if m_ else None)
                        targets = set(local_alias.get(n) for n in names) if names and all(names) else set()
                        if len(targets) != 1 or None in targets:
                            raise UnitError('not_extractable', '%s::%s: subscribe(..) whose three callbacks are not plain forwarders to clones of one handle field' % (sc['impl'], m['fn']))
                        reps.append((t.start, g.end, 'self_.%s.subscribe_forwarding_to(&self_.%s, world)' % (ts[i + 2].text, targets.pop())))
                        i = js; continue
                if world and t.is_p('.'):
                    # R10: `.iter().for_each(|v| { v.1.call(()); })`  ->  `.for_each_call_in(world)`   (exact idiom only)
                    j10 = rxprep.match_seq(ts, i, ['.', 'iter', '()', '.', 'for_each', '(…)'])
                    if j10 > 0 and re.fullmatch(r'\|(\w+)\|\{\1\.1\.call\(\(\)\);?\}', re.sub(r'\s+', '', src[ts[j10 - 1].start + 1:ts[j10 - 1].end - 1])):
                        reps.append((t.start, ts[j10 - 1].end, '.for_each_call_in(world)')); i = j10; continue
                    # R9: `RECV.call(())`  ->  `RECV.call_in(world)`: calling a stored action is an effect on the world log
                    j9 = rxprep.match_seq(ts, i, ['.', 'call', '(…)'])
                    if j9 > 0 and re.sub(r'\s+', '', src[ts[j9 - 1].start:ts[j9 - 1].end]) == '(())':
                        reps.append((t.start, ts[j9 - 1].end, '.call_in(world)')); i = j9; continue
                if t.kind == 'group':
                    scan(t.kids)
                elif t.is_p('|') and i > 0 and (ts[i - 1].kind in ('ident', 'group', 'lit') and not ts[i - 1].is_id('move') and not ts[i - 1].is_id('return')
                                                or ts[i - 1].is_p('|') and i > 1 and ts[i - 2].kind in ('ident', 'group', 'lit')):
                    pass    # binary `|` / `||` between two expressions, not a closure head
                elif t.is_p('|') or t.is_id('move'):
                    raise UnitError('not_extractable', '%s::%s contains a closure' % (sc['impl'], m['fn']))
                elif t.is_id('self'):
                    jw = rxprep.match_seq(ts, i, ['self', '.', 'ident', '.', 'write', '()', '.', 'unwrap', '()'])
                    jr = rxprep.match_seq(ts, i, ['self', '.', 'ident', '.', 'read', '()', '.', 'unwrap', '()'])
                    jf = rxprep.match_seq(ts, i, ['self', '.', 'ident', '.', 'ident', '(…)'])
                    if jw > 0 and ts[i + 2].text in fields:
                        reps.append((t.start, ts[jw - 1].end, '(&mut self_.%s)' % ts[i + 2].text)); i = jw; continue
                    if jr > 0 and ts[i + 2].text in fields:
                        reps.append((t.start, ts[jr - 1].end, '(&self_.%s)' % ts[i + 2].text)); i = jr; continue
                    if jf > 0 and ts[i + 2].text in flatten:
                        reps.append((t.start, ts[i + 4].end, 'self_.%s__%s' % (ts[i + 2].text, ts[i + 4].text)))
                        if world:   # the flattened field's methods may re-enter this type (teardown): they get the world log too
                            reps.append((ts[i + 5].start, ts[i + 5].start + 1, '(world, ' if ts[i + 5].kids else '(world'))
                        scan(ts[i + 5].kids)
                        i = jf; continue
                    if jf > 0 and ts[i + 2].text in handles:
                        # a method of a listed handle field is a method of its model (no effect on the other fields)
                        reps.append((t.start, t.end, 'self_'))
                        scan(ts[i + 5].kids)
                        i = jf; continue
                    jm = rxprep.match_seq(ts, i, ['self', '.', 'ident', '(…)'])
                    if jm > 0 and ts[i + 2].text in self_methods:
                        # R6': `self.M(args)` -> `<unit>_M(self_, world, args)`: the callee is another lifted method of this unit, the
                        # call is checked against the CALLEE'S CONTRACT (modular)
                        reps.append((t.start, ts[i + 3].start + 1, '%s_%s(self_, %s' % (op, ts[i + 2].text, ('world, ' if ts[i + 3].kids else 'world') if world else '')))
                        scan(ts[i + 3].kids)
                        i = jm; continue
                    raise UnitError('not_extractable', '%s::%s uses self other than through a listed field' % (sc['impl'], m['fn']))
                i += 1
        scan(body.kids)
        text = src[start:end]
        for s_, e_, new in sorted(reps, reverse=True):
            text = text[:s_ - start] + new + text[e_ - start:]
        import hashlib
        sha = hashlib.sha256(src[start:end].encode()).hexdigest()
        # parameters after &self, by position
        pg = next((t for t in hdr if t.is_group('(')), None)
        pnames = []
        if pg is not None:
            for part in rxprep.split_commas(pg.kids):
                if part and part[0].kind == 'ident' and not part[0].is_id('self') and any(t.is_p(':') for t in part):
                    pnames.append(part[0].text)
        def subst(t):
            for k in range(len(pnames), 0, -1):
                t = t.replace('$%d' % k, pnames[k - 1])
            return t
        ptypes = m.get('param_types', [])
        params = ['self_: &mut %s' % model] + (['world: &mut %s' % world] if world else []) + ['%s: %s' % (n, ptypes[k]) for k, n in enumerate(pnames)]
        req = [subst(x) for x in m.get('requires', [])]
        ens = [subst(x) for x in m.get('ensures', [])]
        fn_name = '%s_%s' % (op, m['fn'])
        ret = (' -> (%s)' % m['returns']) if m.get('returns') else ''
        dec = ('    decreases %s\n' % subst(m['decreases'])) if m.get('decreases') else ''
        header = '// extracted method %s::%s: %s chars %d..%d (line %d) sha256=%s\n// replacements: %s\n' % (
            sc['impl'], m['fn'], sc['file'], start, end, rxprep.line_of(src, start), sha, json.dumps([(src[a:b], n) for a, b, n in sorted(reps)]))
        if ret:
            f = header + 'fn %s(%s)%s\n    requires\n%s    ensures\n%s%s{\n    /*BEGIN-EXTRACTED*/ %s /*END-EXTRACTED*/\n}\n' % (
                fn_name, ', '.join(params), ret, _fmt_list(req or ['true']), _fmt_list(ens), dec, text)
        else:
            f = header + 'fn %s(%s)\n    requires\n%s    ensures\n%s%s{\n    let _unit: () = /*BEGIN-EXTRACTED*/ %s /*END-EXTRACTED*/;\n%s}\n' % (
                fn_name, ', '.join(params), _fmt_list(req or ['true']), _fmt_list(ens), dec, text, ('    proof { %s }\n' % subst(m['proof'])) if m.get('proof') else '')
        fns.append(f)
        twins.append('fn %s_twin(%s)\n    requires\n%s    ensures false,\n{\n}\n' % (fn_name, ', '.join(params), _fmt_list(req or ['true'])))
        meta.append({'fn': fn_name, 'file': sc['file'], 'line': rxprep.line_of(src, start), 'span': [start, end], 'sha256': sha,
                     'replacements': [(src[a:b], n) for a, b, n in sorted(reps)], 'loops': 0})
    prelude = open(os.path.join(VERIF, 'models', 'prelude.rs')).read()
    text = prelude + '\nverus! {\n// ---- specification (contracts/%s) ----\n%s\n%s\n// ---- extracted from /repo ----\n%s\n} // verus!\nfn main() {}\n' % (
        os.path.basename(sidecar_path), sc.get('spec', ''), sc.get('model_code', ''), '\n'.join(fns))
    twin_text = prelude + '\nverus! {\n%s\n%s\n} // verus!\nfn main() {}\n' % (sc.get('spec', ''), '\n'.join(twins))
    for fn_name, needle in sc.get('ctor_facts', []):
        try:
            fbody, _ = rxprep.find_fn(toks, fn_name, sc.get('impl'))
            if re.sub(r'\s+', '', needle) not in re.sub(r'\s+', '', src[fbody.start:fbody.end]):
                sk_problems.append('wiring fact not found in fn %s: `%s`' % (fn_name, needle))
        except (AnchorLost, LexError) as e:
            sk_problems.append('wiring fact: %s' % e)
    return {'op': op, 'text': text, 'twins': twin_text, 'facts': {}, 'skeleton_problems': sk_problems, 'outer_cells': [],
            'extracted': meta, 'props': sc.get('props', []), 'known_fail': {}, 'fn_names': [m_['fn'] for m_ in meta],
            'twin_names': [m_['fn'] + '_twin' for m_ in meta]}


def gen_callbacks_unit(sc, sidecar_path, repo):
    """closures registered as callbacks by a wiring method (`self.F.CALL(move |params| { .. })` inside `fn NAME(&self)`): each closure
    body is lifted like an operator handler (R1 on the captured lock cells, R13 connect idiom, R14 `.unsubscribe()` -> world log);
    the captured names must be identity aliases of the struct's fields (`let X = Arc::clone(&self.X);` / `let X = self.X.clone();`),
    checked as the unit's skeleton.  One closure may carry several contracts ([[callback]] entries with the same `call`)."""
    import rxlex
    op = sc['op']
    src_path = os.path.join(repo, sc['file'])
    if not os.path.exists(src_path):
        raise UnitError('anchor', 'file %s missing' % sc['file'])
    src = open(src_path).read()
    toks = rxprep.strip_test_mods(rxprep.tree(src))
    try:
        body, _ = rxprep.find_fn(toks, sc['fn'], sc.get('impl'))
    except (AnchorLost, LexError) as e:
        raise UnitError('anchor', str(e))
    cells = sc.get('cells', {})
    captures = sc.get('captures', {})
    sk_problems = []
    found = {}
    def visit(kids):
        for st in rxprep.split_statements(kids):
            if not st:
                continue
            if len(st) == 1 and st[0].is_group('{'):
                visit(st[0].kids)
                continue
            txt = re.sub(r'\s+', ' ', src[st[0].start:st[-1].end]).strip().rstrip(';')
            m = re.fullmatch(r'let (\w+) = (Arc::clone\( ?&self\.(\w+) ?\)|self\.(\w+)\.clone\(\))', txt)
            if m:
                if m.group(1) != (m.group(3) or m.group(4)):
                    sk_problems.append('captured name `%s` is not an alias of the field of the same name: `%s`' % (m.group(1), txt))
                elif m.group(1) not in cells and m.group(1) not in captures:
                    sk_problems.append('captured field `%s` is not covered by the contract' % m.group(1))
                continue
            j = rxprep.match_seq(st, 0, ['self', '.', 'ident', '.', 'ident', '(…)'])
            if j > 0 and j >= len(st) - 1 and st[4].text in [c['call'] for c in sc['callback']]:
                cl = rxprep.parse_closure(st[5].kids, src)
                if cl is None:
                    sk_problems.append('argument of %s is not a closure' % st[4].text)
                elif st[4].text in found:
                    sk_problems.append('%s is registered more than once' % st[4].text)
                else:
                    found[st[4].text] = cl
                continue
            sk_problems.append('unrecognised statement in %s: `%s`' % (sc['fn'], txt[:120]))
    visit(body.kids)
    world = sc.get('world', 'World')
    fns, twins, meta = [], [], []
    for cb in sc['callback']:
        cl = found.get(cb['call'])
        if cl is None:
            raise UnitError('anchor', 'no `self.<field>.%s(closure)` in fn %s' % (cb['call'], sc['fn']))
        sk = rxprep.Skeleton()
        for c in cells:
            sk.cells[c] = ('', 0)
        try:
            ex = rxprep.rewrite_body(cl, sk, src, op, captures, {}, world=True)
        except NotExtractable as e:
            raise UnitError('not_extractable', '%s.%s: %s' % (op, cb['call'], e))
        pnames = [p_[0] for p_ in ex.params]
        def subst(t):
            for k in range(len(pnames), 0, -1):
                t = t.replace('$%d' % k, pnames[k - 1])
            return t
        ptypes = cb.get('param_types', [])
        params = ['%s: &mut %s' % (c, t) for c, t in cells.items()] + ['%s: %s' % (c, t) for c, t in captures.items()] + \
                 ['world: &mut %s' % world] + ['%s: %s' % (n, ptypes[k]) for k, n in enumerate(pnames)]
        req = [subst(x) for x in cb.get('requires', [])] or ['true']
        ens = [subst(x) for x in cb.get('ensures', [])]
        fn_name = '%s_%s' % (op, cb.get('name', cb['call']))
        header = '// extracted callback `%s` of %s::%s: %s chars %d..%d (line %d) sha256=%s\n// replacements: %s\n' % (
            cb['call'], sc.get('impl', ''), sc['fn'], sc['file'], ex.span[0], ex.span[1], rxprep.line_of(src, ex.span[0]), ex.sha256, json.dumps(ex.replacements))
        f = header + 'fn %s(%s)\n    requires\n%s    ensures\n%s{\n    let _unit: () = /*BEGIN-EXTRACTED*/ %s /*END-EXTRACTED*/;\n%s}\n' % (
            fn_name, ', '.join(params), _fmt_list(req), _fmt_list(ens), ex.text, ('    proof { %s }\n' % subst(cb['proof'])) if cb.get('proof') else '')
        fns.append(f)
        twins.append('fn %s_twin(%s)\n    requires\n%s    ensures false,\n{\n}\n' % (fn_name, ', '.join(params), _fmt_list(req)))
        meta.append({'fn': fn_name, 'file': sc['file'], 'line': rxprep.line_of(src, ex.span[0]), 'span': list(ex.span), 'sha256': ex.sha256,
                     'replacements': ex.replacements, 'loops': ex.loops})
    prelude = open(os.path.join(VERIF, 'models', 'prelude.rs')).read()
    text = prelude + '\nverus! {\n// ---- specification (contracts/%s) ----\n%s\n// ---- extracted from /repo ----\n%s\n} // verus!\nfn main() {}\n' % (
        os.path.basename(sidecar_path), sc.get('spec', ''), '\n'.join(fns))
    twin_text = prelude + '\nverus! {\n%s\n%s\n} // verus!\nfn main() {}\n' % (sc.get('spec', ''), '\n'.join(twins))
    return {'op': op, 'text': text, 'twins': twin_text, 'facts': {}, 'skeleton_problems': sk_problems, 'outer_cells': [],
            'extracted': meta, 'props': sc.get('props', []), 'known_fail': {}, 'fn_names': [m_['fn'] for m_ in meta],
            'twin_names': [m_['fn'] + '_twin' for m_ in meta if not sc.get('no_twin_for') or m_['fn'] not in sc.get('no_twin_for')]}


def gen_unit(sidecar_path: str, repo: str) -> dict:
    sc = load_sidecar(sidecar_path)
    if sc.get('kind') == 'callbacks':
        return gen_callbacks_unit(sc, sidecar_path, repo)
    if sc.get('kind') == 'method':
        return gen_method_unit(sc, sidecar_path, repo)
    if sc.get('kind') == 'source':
        return gen_source_unit(sc, sidecar_path, repo)
    if sc.get('kind') == 'multi':
        return gen_multi_unit(sc, sidecar_path, repo)
    op = sc['op']
    src_path = os.path.join(repo, sc['file'])
    if not os.path.exists(src_path):
        raise UnitError('anchor', 'file %s missing' % sc['file'])
    src = open(src_path).read()
    try:
        sk = rxprep.analyse(src, sc.get('fn', 'execute'), sc.get('impl'))
    except (AnchorLost, LexError) as e:
        raise UnitError('anchor', str(e))
    kind = sc.get('kind', 'single')
    reconcile_cells(sk, sc.get('cells', {}))
    facts = skeleton_facts(sk, sc, src)
    captures: Dict[str, str] = sc.get('captures', {})
    cells: Dict[str, str] = sc.get('cells', {})
    tin, tout = sc.get('in', 'Item'), sc.get('out', 'Item')
    # --- skeleton obligations (syntactic) -----------------------------------------------------------
    sk_problems = []
    if kind == 'single':
        if sk.sctl is None:
            sk_problems.append('no `let sctl = StreamController::new(..)` in the create-closure')
        if sk.sctl_arg != sk.create_param:
            sk_problems.append('StreamController::new is not applied to the create-closure parameter')
        if sk.n_new_observer != 1 or len(sk.handlers) != 3:
            sk_problems.append('expected exactly one new_observer(next, error, complete), found %d' % sk.n_new_observer)
        if sk.n_inner_subscribe != 1:
            sk_problems.append('expected exactly one inner_subscribe, found %d' % sk.n_inner_subscribe)
        want_target = sc.get('subscribe_target', 'source')
        got = re.sub(r'\s+', '', sk.subscribe_target or '')
        # aliases of the source (`let source_next = source.clone()`)
        got_c = sk.canon(got) if re.fullmatch(r'\w+', got or '') else got
        if got_c != re.sub(r'\s+', '', want_target):
            sk_problems.append('inner_subscribe is called on `%s`, expected `%s`' % (got, want_target))
        if sk.unknown:
            sk_problems.append('unrecognised statements in the create-closure: %r' % sk.unknown)
        if sc.get('prologue_is') is not None:
            # a declared prologue: exactly these statements (whitespace-insensitive, `$s` = the create-closure parameter); what they do
            # is the obligation of the unit `<op>_prologue`
            def norm(x):
                x = re.sub(r'\b(\d+)\s*==\s*(\w+)\b', r'\2 == \1', x)      # `0 == count` is `count == 0`
                return re.sub(r'\s+', '', x)
            want = [norm(x.replace('$s', sk.create_param or 's')) for x in sc['prologue_is']]
            got = [norm(x) for x in sk.prologue]
            if got != want:
                sk_problems.append('statements before StreamController::new differ from the declared prologue: %r' % sk.prologue)
        elif sk.prologue and not sc.get('allow_prologue'):
            sk_problems.append('statements before StreamController::new: %r' % sk.prologue)
        for c in cells:
            if c not in sk.cells and c not in sk.outer_cells:
                sk_problems.append('state cell `%s` not found' % c)
        for c in sk.cells:
            if c not in cells:
                sk_problems.append('state cell `%s` is not covered by the contract' % c)
    for name, txt in sk.outer_lets.items():
        if not re.fullmatch(r'let\s+(mut\s+)?\w+\s*=\s*self\s*\.\s*\w+\s*(\.\s*clone\s*\(\s*\))?', txt.strip()):
            sk_problems.append('unrecognised statement in %s before create: `%s`' % (sc.get('fn', 'execute'), txt))
    # C14 frame: cells created outside the create closure
    outer = [c for c in sk.outer_cells]
    # --- extraction ---------------------------------------------------------------------------------------
    units = []
    helper_sigs = {}
    all_cells = list(cells.keys())

    def cell_params(final=False):
        return ['%s: &mut %s' % (c, cells[c]) for c in all_cells]

    def cap_params():
        return ['%s: %s' % (c, t) for c, t in captures.items()]

    def cell_args_old():
        return ['*old(%s)' % c for c in all_cells]

    def cell_args_final():
        return ['*final(%s)' % c for c in all_cells]

    cap_args = sc.get('spec_captures', list(captures.keys()))
    cap_all = list(captures.keys())
    for h in sk.helpers:
        helper_sigs[h] = all_cells + cap_all + ['sctl']

    def spec_args(cellargs, xs):
        return ', '.join(cellargs + cap_args + [xs])

    def def_args(xs):
        return ', '.join([xs] + cap_args)

    names = ['next', 'error', 'complete']
    ptypes = {'next': ['i32', tin], 'error': ['i32', 'RxError'], 'complete': ['i32']}
    fns = []
    twins = []
    extracted_meta = []
    if len(sk.handlers) != 3:
        raise UnitError('skeleton', 'handlers not found: %s' % '; '.join(sk_problems))
    hs = sc.get('handler', {})
    dn = '%s_def_n' % op
    dc = sc.get('def_c', 'fin_c(%s(%s))' % (dn, def_args('xs')))
    de = sc.get('def_e', 'fin_e(%s(%s), $e)' % (dn, def_args('xs')))
    rep = '%s_rep' % op
    for which, cl in zip(names, sk.handlers):
        try:
            ex = rxprep.rewrite_body(cl, sk, src, op, captures, helper_sigs)
        except NotExtractable as e:
            raise UnitError('not_extractable', '%s.%s: %s' % (op, which, e))
        hc = hs.get(which, {})
        pnames = []
        for k, (pn, pt) in enumerate(ex.params):
            ty = ptypes[which][k]
            pnames.append(pn)
        serial, rest = pnames[0], pnames[1:]
        params = cell_params() + cap_params() + ['sctl: &mut SctlModel<%s>' % tout]
        params += ['%s: %s' % (pn, ptypes[which][k]) for k, pn in enumerate(pnames)]
        params += ['Ghost(xs): Ghost<Seq<%s>>' % tin]
        def subst(t, serial=serial, rest=rest):
            t = t.replace('$serial', serial)
            if rest:
                t = t.replace('$x', rest[0]).replace('$e', rest[0])
            return t
        hc = {k: ([subst(x) for x in v] if isinstance(v, list) else subst(v) if isinstance(v, str) else v) for k, v in hc.items()}
        req = ['old(sctl).wf()',
               'old(sctl).sub@ ==> live_post(old(sctl), %s(%s), %s as int)' % (dn, def_args('xs'), serial),
               'old(sctl).sub@ ==> %s(%s)' % (rep, spec_args(cell_args_old(), 'xs'))]
        if sc.get('live_only'):
            req.append('old(sctl).sub@')
        req += hc.get('requires', [])
        if which == 'next':
            x = rest[0]
            xs2 = 'xs.push(%s)' % x
            ens = ['step_safe(old(sctl), final(sctl))',
                   'old(sctl).sub@ && (final(sctl).sub@ || !old(sctl).quits@) ==> live_post(final(sctl), %s(%s), %s as int)' % (dn, def_args(xs2), serial),
                   'old(sctl).sub@ && final(sctl).sub@ ==> %s(%s)' % (rep, spec_args(cell_args_final(), xs2))]
        elif which == 'error':
            e = rest[0]
            ens = ['step_safe(old(sctl), final(sctl))',
                   '!final(sctl).sub@',
                   'old(sctl).sub@ && !old(sctl).quits@ ==> final(sctl).out@ == %s' % subst(de)]
        else:
            ens = ['step_safe(old(sctl), final(sctl))',
                   '!final(sctl).sub@',
                   'old(sctl).sub@ && !old(sctl).quits@ ==> final(sctl).out@ == %s' % dc]
        ens += hc.get('ensures', [])
        body = ex.text
        body = insert_loop_invariants(body, hc.get('invariants', []), hc.get('for_names'), hc.get('loop_kinds'))
        pre = hc.get('proof_pre', '')
        post = hc.get('proof', '')
        fn_name = '%s_%s' % (op, which)
        header = '// extracted: %s chars %d..%d (line %d) sha256=%s\n// replacements: %s\n' % (
            sc['file'], ex.span[0], ex.span[1], rxprep.line_of(src, ex.span[0]), ex.sha256,
            json.dumps(ex.replacements))
        f = header + 'fn %s(%s)\n    requires\n%s    ensures\n%s{\n' % (fn_name, ', '.join(params), _fmt_list(req), _fmt_list(ens))
        if pre:
            f += '    proof { %s }\n' % pre
        f += '    let _unit: () = /*BEGIN-EXTRACTED*/ %s /*END-EXTRACTED*/;\n' % body
        if post:
            f += '    proof { %s }\n' % post
        f += '}\n'
        fns.append(f)
        twins.append('fn %s_twin(%s)\n    requires\n%s    ensures false,\n{\n}\n' % (fn_name, ', '.join(params), _fmt_list(req or ['true'])))
        extracted_meta.append({'fn': fn_name, 'file': sc['file'], 'line': rxprep.line_of(src, ex.span[0]),
                               'span': list(ex.span), 'sha256': ex.sha256, 'replacements': ex.replacements,
                               'loops': ex.loops})
        # C06 obligation: the same extracted body against a teardown-only contract (no statement about WHAT is delivered)
        c06 = list(hc.get('c06_ensures', []))
        if which in ('error', 'complete') and sc.get('c06_terminal_ends', True) and c06 is not None:
            c06 = ['!final(sctl).sub@ && final(sctl).ups@ =~= Set::<int>::empty()'] + c06
        if c06 and sc.get('c06', True):
            req6 = [subst(x) for x in hc['c06_requires']] if 'c06_requires' in hc else req
            f6 = header + 'fn %s_c06(%s)\n    requires\n%s    ensures\n%s{\n' % (fn_name, ', '.join(params), _fmt_list(req6), _fmt_list(['final(sctl).wf()'] + c06))
            own = 'c06_requires' in hc
            pre6 = hc.get('c06_proof_pre', '') if own else pre
            post6 = hc.get('c06_proof', '') if own else post
            if pre6:
                f6 += '    proof { %s }\n' % pre6
            f6 += '    let _unit: () = /*BEGIN-EXTRACTED*/ %s /*END-EXTRACTED*/;\n' % body
            if post6:
                f6 += '    proof { %s }\n' % post6
            f6 += '}\n'
            fns.append(f6)
            extracted_meta.append({'fn': fn_name + '_c06', 'file': sc['file'], 'line': rxprep.line_of(src, ex.span[0]),
                                   'span': list(ex.span), 'sha256': ex.sha256, 'replacements': ex.replacements,
                                   'loops': ex.loops})
    # helpers
    for hname, cl in sk.helpers.items():
        hc = sc.get('helper', {}).get(hname)
        if hc is None:
            sk_problems.append('helper closure `%s` has no contract' % hname)
            continue
        try:
            ex = rxprep.rewrite_body(cl, sk, src, op, captures, helper_sigs)
        except NotExtractable as e:
            raise UnitError('not_extractable', '%s.%s: %s' % (op, hname, e))
        params = cell_params() + cap_params() + ['sctl: &mut SctlModel<%s>' % tout]
        ptys = hc['param_types']
        params += ['%s: %s' % (pn, ptys[k]) for k, (pn, _pt) in enumerate(ex.params)]
        params += hc.get('ghost_params', [])
        body = insert_loop_invariants(ex.text, hc.get('invariants', []), hc.get('for_names'), hc.get('loop_kinds'))
        fn_name = '%s_%s' % (op, hname)
        header = '// extracted helper closure: %s chars %d..%d (line %d) sha256=%s\n// replacements: %s\n' % (
            sc['file'], ex.span[0], ex.span[1], rxprep.line_of(src, ex.span[0]), ex.sha256, json.dumps(ex.replacements))
        ret = hc.get('returns', '')
        f = header + 'fn %s(%s)%s\n    requires\n%s    ensures\n%s{\n' % (
            fn_name, ', '.join(params), (' -> ' + ret) if ret else '', _fmt_list(hc.get('requires', [])), _fmt_list(hc.get('ensures', [])))
        if ret:
            f += '    /*BEGIN-EXTRACTED*/ %s /*END-EXTRACTED*/\n}\n' % body.strip()[1:-1] if body.strip().startswith('{') else body
        else:
            f += '    let _unit: () = /*BEGIN-EXTRACTED*/ %s /*END-EXTRACTED*/;\n' % body
            if hc.get('proof'):
                f += '    proof { %s }\n' % hc['proof']
            f += '}\n'
        fns.append(f)
        twins.append('fn %s_twin(%s)\n    requires\n%s    ensures false,\n{\n}\n' % (fn_name, ', '.join(params), _fmt_list(hc.get('requires', []))))
        extracted_meta.append({'fn': fn_name, 'file': sc['file'], 'line': rxprep.line_of(src, ex.span[0]),
                               'span': list(ex.span), 'sha256': ex.sha256, 'replacements': ex.replacements, 'loops': ex.loops})
    # init
    init_fn = ''
    if kind == 'single':
        lets = []
        for c in all_cells:
            init = (sk.cells.get(c) or (sk.outer_cells.get(c), 0))[0]
            lets.append('    let %s: %s = /*BEGIN-EXTRACTED*/ %s /*END-EXTRACTED*/;\n' % (c, cells[c], init))
        ret_t = '(' + ', '.join(cells[c] for c in all_cells) + ('' if len(all_cells) != 1 else ',') + ')'
        ret_args = ['r.%d' % i for i in range(len(all_cells))]
        ic = sc.get('init', {})
        init_fn = 'fn %s_init(%s) -> (r: %s)\n    requires\n%s    ensures\n%s{\n%s%s    (%s)\n}\n' % (
            op, ', '.join('%s: %s' % (c, captures[c]) for c in cap_args), ret_t, _fmt_list(ic.get('requires', [])),
            _fmt_list(['%s(%s)' % (rep, spec_args(ret_args, 'Seq::<%s>::empty()' % tin)),
                       '%s(%s) =~= Seq::<Ev<%s>>::empty()' % (dn, def_args('Seq::<%s>::empty()' % tin), tout)]),
            ''.join(lets), ('    proof { %s }\n' % ic['proof']) if ic.get('proof') else '',
            ', '.join(all_cells) + (',' if len(all_cells) == 1 else ''))
        fns.insert(0, init_fn)
    inc = ''
    for other in sc.get('include_specs', []):
        osc = load_sidecar(os.path.join(VERIF, 'contracts', other + '.toml'))
        inc += '\n// ---- included specification of contracts/%s.toml ----\n%s\n' % (other, osc.get('spec', ''))
    sc = dict(sc)
    sc['spec'] = inc + sc.get('spec', '')
    # constructor facts (syntactic, whitespace-insensitive): e.g. First::new builds Take::new(1)
    for fn_name, needle in sc.get('ctor_facts', []):
        try:
            toks0 = rxprep.strip_test_mods(rxprep.tree(src))
            fbody, _ = rxprep.find_fn(toks0, fn_name, sc.get('impl'))
            got = re.sub(r'::<[^<>]*>', '', re.sub(r'\s+', '', src[fbody.start:fbody.end]))      # a turbofish does not change what is built
            if re.sub(r'::<[^<>]*>', '', re.sub(r'\s+', '', needle)) not in got:
                sk_problems.append('constructor fact not found in fn %s: `%s`' % (fn_name, needle))
        except (AnchorLost, LexError) as e:
            sk_problems.append('constructor fact: %s' % e)
    text = open(os.path.join(VERIF, 'models', 'prelude.rs')).read()
    for extra in sc.get('models', []):
        text += '\n' + open(os.path.join(VERIF, 'models', extra)).read()
    text += '\nverus! {\n\n// ---- specification (contracts/%s) ----\n%s\n' % (os.path.basename(sidecar_path), sc.get('spec', ''))
    text += '\n// ---- extracted from /repo, obligations ----\n' + '\n'.join(fns)
    text += '\n} // verus!\nfn main() {}\n'
    twin_text = open(os.path.join(VERIF, 'models', 'prelude.rs')).read()
    for extra in sc.get('models', []):
        twin_text += '\n' + open(os.path.join(VERIF, 'models', extra)).read()
    twin_text += '\nverus! {\n%s\n%s\n} // verus!\nfn main() {}\n' % (sc.get('spec', ''), '\n'.join(twins))
    definite = {}
    if kind == 'single' and sc.get('allow_prologue') and sc.get('prologue_is') is None:
        definite['wiring_guarded_by_is_subscribed'] = (
            bool(sk.guarded_by_is_subscribed),
            'the operator emits before it wires its source (prologue %r) but the wiring is not guarded by `if %s.is_subscribed()`: a subscriber that ended during the prologue still causes the source to be subscribed' % (sk.prologue, sk.create_param),
            sc.get('guard_fact_props', ['C06']))
    return {'op': op, 'text': text, 'twins': twin_text, 'facts': facts, 'skeleton_problems': sk_problems, 'definite_facts': definite,
            'outer_cells': outer, 'extracted': extracted_meta, 'props': sc.get('props', []),
            'known_fail': sc.get('known_fail', {}),
            'fn_names': [m['fn'] for m in extracted_meta] + (['%s_init' % op] if init_fn else []),
            'twin_names': [m['fn'] + '_twin' for m in extracted_meta if not m['fn'].endswith('_c06')]}


def insert_loop_invariants(body: str, invs: List[str], for_names: List[str] = None, kinds: List[str] = None) -> str:
    """R5: the k-th loop (`for`/`while`/`loop` keyword, textual order) gets invs[k] inserted before its body brace; a `for` loop
    may additionally get a ghost iterator name (`for x in NAME: expr`) so that the invariant can speak about progress"""
    if not invs and not for_names:
        return body
    import rxlex
    toks = rxlex.tree(body)
    loops = []
    for parent, i, t in rxlex.walk(toks):
        if t.kind == 'ident' and t.text in ('for', 'while', 'loop'):
            in_end = None
            for j in range(i + 1, len(parent)):
                if t.text == 'for' and in_end is None and parent[j].is_id('in'):
                    in_end = parent[j].end
                if parent[j].is_group('{'):
                    loops.append((t.start, parent[j].start, in_end))
                    break
    loops.sort()
    if kinds is not None:
        got = [body[kw:].split(None, 1)[0].split('{')[0] for kw, _, _ in loops]
        if got != list(kinds):
            # the loop invariants of the sidecar are tied to the loop structure they were written for; a restructured loop is a lost
            # anchor (undecided), not a failed proof
            raise UnitError('anchor', 'loop structure changed: the contract has invariants for loops %r, the code has %r' % (list(kinds), got))
    edits = []
    for k, (kw, brace, in_end) in enumerate(loops):
        if invs and k < len(invs) and invs[k]:
            edits.append((brace, '\n' + invs[k] + '\n'))
        if for_names and k < len(for_names) and for_names[k] and in_end is not None:
            edits.append((in_end, ' %s:' % for_names[k]))
    out = body
    for pos, txt in sorted(edits, reverse=True):
        out = out[:pos] + txt + out[pos:]
    return out


def skeleton_facts(sk, sc, src):
    return {
        'create_param': sk.create_param,
        'sctl': sk.sctl,
        'cells': {k: v[0] for k, v in sk.cells.items()},
        'outer_cells': sk.outer_cells,
        'aliases': sk.alias,
        'helpers': list(sk.helpers.keys()),
        'new_observer_calls': sk.n_new_observer,
        'inner_subscribe_calls': sk.n_inner_subscribe,
        'subscribe_target': sk.subscribe_target,
        'prologue': sk.prologue,
        'unknown': sk.unknown,
    }


if __name__ == '__main__':
    r = gen_unit(sys.argv[1], sys.argv[2] if len(sys.argv) > 2 else '/repo')
    out = sys.argv[3] if len(sys.argv) > 3 else '/tmp/vx'
    os.makedirs(out, exist_ok=True)
    open(os.path.join(out, r['op'] + '.rs'), 'w').write(r['text'])
    open(os.path.join(out, r['op'] + '_twins.rs'), 'w').write(r['twins'])
    print(json.dumps({k: v for k, v in r.items() if k not in ('text', 'twins')}, indent=1))
