"""S-frame obligations (DESIGN 3.3): frame / encapsulation / ownership conditions that the language's privacy rules make
decidable on the token tree.  They are obligations with their own ids, engine `syntactic`, and are counted separately from the
SMT-discharged ones.  Verdicts: discharged / failed (a definite violation of the frame condition) / undecided (anchor lost or a
new, uncontracted method appeared: needs a contract, not an alarm)."""
import glob
import os
import re
import sys

sys.path.insert(0, os.path.dirname(__file__))
import rxprep
from rxlex import tree, walk, LexError

OBSERVER_METHODS = {'new', 'next', 'error', 'complete', 'unsubscribe', 'is_subscribed', 'set_on_unsubscribe'}
FW_METHODS = {'new', 'clear', 'empty', 'exists', 'fetch_function', 'call', 'call_if_available', 'call_and_clear_if_available'}
SUBSCRIPTION_METHODS = {'new', 'unsubscribe', 'is_subscribed'}
SCTL_METHODS = {'new', 'set_on_finalize', 'new_observer', 'sink_next', 'sink_error', 'sink_complete', 'sink_complete_force',
                'upstream_abort_observe', 'finalize', 'is_subscribed'}
# operators whose shared state across subscriptions is their purpose (connectables, C13) or that are not C02-C04 operators
C14_EXEMPT = {'publish', 'ref_count', 'replay', 'to_vec'}   # to_vec: a Future holding its own buffer, one per call (C18 domain)


def _read(repo, rel):
    p = os.path.join(repo, rel)
    if not os.path.exists(p):
        raise rxprep.AnchorLost('file %s missing' % rel)
    return open(p).read()


def impl_methods(toks, type_name):
    """names of all fns in `impl ... type_name ... { }` blocks (inherent impls)"""
    names = {}
    for i, t in enumerate(toks):
        if t.is_id('impl'):
            j = i + 1
            hdr = []
            while j < len(toks) and not toks[j].is_group('{'):
                hdr.append(toks[j]); j += 1
            if j >= len(toks):
                continue
            ids = []
            for h in hdr:
                if h.is_id('where'):
                    break
                if h.kind == 'ident':
                    ids.append(h.text)
            if type_name in ids and 'for' not in ids:
                body = toks[j].kids
                for k, u in enumerate(body):
                    if u.is_id('fn') and k + 1 < len(body) and body[k + 1].kind == 'ident':
                        for m in range(k + 2, len(body)):
                            if body[m].is_group('{'):
                                names[body[k + 1].text] = body[m]
                                break
    return names


def struct_fields(toks, type_name, src):
    """[(field, is_pub, type text)]"""
    for i, t in enumerate(toks):
        if t.is_id('struct') and i + 1 < len(toks) and toks[i + 1].is_id(type_name):
            for j in range(i + 2, len(toks)):
                if toks[j].is_group('{'):
                    out = []
                    for part in _split_top_commas(toks[j].kids):
                        if not part:
                            continue
                        is_pub = part[0].is_id('pub')
                        names = [p for p in part if p.kind == 'ident' and p.text not in ('pub', 'crate')]
                        colon = next((k for k, p in enumerate(part) if p.is_p(':')), None)
                        if colon is None or colon == 0:
                            continue
                        fname = part[colon - 1].text
                        out.append((fname, is_pub, src[part[colon + 1].start:part[-1].end]))
                    return out
                if toks[j].is_p(';'):
                    return []
    return None


def _split_top_commas(kids):
    parts, cur = [], []
    depth = 0
    for t in kids:
        if t.is_p('<'):
            depth += 1
        elif t.is_p('>'):
            depth -= 1
        if t.is_p(',') and depth <= 0:
            parts.append(cur); cur = []
        else:
            cur.append(t)
    if cur:
        parts.append(cur)
    return parts


def _mk(Obl, oid, props, where):
    return Obl(oid, 'syntactic', 'rxprep/token-tree', props, where=where)


def collect(prop, repo):
    from driver import Obl
    obls = []

    def ob(oid, where, fn):
        o = _mk(Obl, '%s.S.%s' % (prop, oid), [prop], where)
        try:
            r = fn()
            if r is None:
                o.status = 'discharged'
            else:
                o.status, o.detail = r
        except (rxprep.AnchorLost, LexError) as e:
            o.status, o.detail = 'undecided', 'anchor lost: %s' % e
        obls.append(o)

    if prop in ('C01', 'C05', 'C17'):
        def encaps_observer():
            src = _read(repo, 'src/observer.rs')
            toks = rxprep.strip_test_mods(tree(src))
            fields = struct_fields(toks, 'Observer', src)
            if fields is None:
                raise rxprep.AnchorLost('struct Observer')
            pubs = [f for f, p, _ in fields if p]
            if pubs:
                return 'failed', 'Observer fields are no longer private: %s (callbacks reachable without the gate methods)' % pubs
            ms = impl_methods(toks, 'Observer')
            extra = set(ms) - OBSERVER_METHODS
            if extra:
                return 'undecided', 'Observer has methods without a contract: %s' % sorted(extra)
            missing = OBSERVER_METHODS - set(ms)
            if missing:
                raise rxprep.AnchorLost('Observer methods %s' % sorted(missing))
        ob('observer.encapsulated', 'src/observer.rs', encaps_observer)

        def encaps_fw():
            src = _read(repo, 'src/internals/function_wrapper.rs')
            toks = rxprep.strip_test_mods(tree(src))
            fields = struct_fields(toks, 'FunctionWrapper', src)
            if fields is None:
                raise rxprep.AnchorLost('struct FunctionWrapper')
            if [f for f, p, _ in fields if p]:
                return 'failed', 'FunctionWrapper.inner is no longer private'
            ms = impl_methods(toks, 'FunctionWrapper')
            extra = set(ms) - FW_METHODS
            if extra:
                return 'undecided', 'FunctionWrapper has methods without a contract: %s' % sorted(extra)
            # C05 slot monotonicity: only `new` stores Some(..); every write through the lock stores None
            for name, body in ms.items():
                txt = re.sub(r'\s+', '', src[body.start:body.end])
                if name != 'new' and re.search(r'=Some\(', txt) and 'write()' in txt:
                    # `*f = None` after cloning is the only allowed store
                    if re.search(r'\*\w+=Some\(', txt):
                        return 'failed', 'FunctionWrapper::%s stores Some(..) into the slot: a cleared callback can come back (C05 monotonicity)' % name
                if name not in ('new', 'clear', 'call_and_clear_if_available') and 'write()' in txt:
                    return 'undecided', 'FunctionWrapper::%s takes the write lock: not covered by the monotonicity argument' % name
        ob('function_wrapper.encapsulated_monotone', 'src/internals/function_wrapper.rs', encaps_fw)

        def subscribe_gate():
            src = _read(repo, 'src/observable.rs')
            toks = rxprep.strip_test_mods(tree(src))
            ms = impl_methods(toks, 'Observable')
            if 'subscribe' not in ms or 'inner_subscribe' not in ms:
                raise rxprep.AnchorLost('Observable::subscribe / inner_subscribe')
            txt = re.sub(r'\s+', '', src[ms['subscribe'].start:ms['subscribe'].end])
            if txt != '{self.inner_subscribe(Observer::new(next,error,complete))}':
                return 'undecided', 'Observable::subscribe is no longer `self.inner_subscribe(Observer::new(next, error, complete))`: %s' % txt[:200]
        ob('observable.subscribe_gate', 'src/observable.rs', subscribe_gate)

    if prop in ('C05',):
        def subscription_shape():
            src = _read(repo, 'src/subscription.rs')
            toks = rxprep.strip_test_mods(tree(src))
            fields = struct_fields(toks, 'Subscription', src)
            if fields is None:
                raise rxprep.AnchorLost('struct Subscription')
            if [f for f, p, _ in fields if p]:
                return 'failed', 'Subscription fields are no longer private'
            ms = impl_methods(toks, 'Subscription')
            extra = set(ms) - SUBSCRIPTION_METHODS
            if extra:
                return 'undecided', 'Subscription has methods without a contract: %s' % sorted(extra)
        ob('subscription.encapsulated', 'src/subscription.rs', subscription_shape)

        def using_drop():
            # `dropping a utils::Using guard unsubscribes` - on EVERY way the guard is dropped, including a drop during unwinding,
            # which neither Kani (no unwinding) nor the Kani-shaped native harness can exercise: the Drop body must be the
            # unconditional call (the call itself is under contract: k_sub_using_drop_unsubscribes, Subscription::unsubscribe)
            src = _read(repo, 'src/utils/using.rs')
            toks = rxprep.strip_test_mods(tree(src))
            try:
                body, _ = rxprep.find_fn(toks, 'drop', None)
            except rxprep.AnchorLost as e:
                return 'failed', 'utils::Using has no Drop::drop any more: dropping the guard does not unsubscribe (%s)' % e
            txt = re.sub(r'\s+', '', src[body.start:body.end])
            if txt == '{self.subscription.unsubscribe();}':
                return None
            if 'self.subscription.unsubscribe()' not in txt:
                return 'failed', 'Using::drop no longer calls self.subscription.unsubscribe(): %s' % txt[:200]
            if re.search(r'\b(if|return|match|panicking|catch_unwind)\b', txt):
                return 'failed', 'Using::drop unsubscribes only conditionally (some way of dropping the guard leaves the subscription alive): %s' % txt[:200]
            return 'undecided', 'Using::drop is no longer exactly `self.subscription.unsubscribe();`: %s' % txt[:200]
        ob('using.drop_unsubscribes_unconditionally', 'src/utils/using.rs', using_drop)

    if prop in ('C06', 'C17'):
        def sctl_shape():
            src = _read(repo, 'src/internals/stream_controller.rs')
            toks = rxprep.strip_test_mods(tree(src))
            fields = struct_fields(toks, 'StreamController', src)
            if fields is None:
                raise rxprep.AnchorLost('struct StreamController')
            if [f for f, p, _ in fields if p]:
                return 'failed', 'StreamController fields are no longer private (operators could bypass the sink_* contract)'
            ms = impl_methods(toks, 'StreamController')
            extra = set(ms) - SCTL_METHODS
            if extra:
                return 'undecided', 'StreamController has methods without a contract: %s' % sorted(extra)
            missing = SCTL_METHODS - set(ms)
            if missing:
                raise rxprep.AnchorLost('StreamController methods %s' % sorted(missing))
        ob('stream_controller.encapsulated', 'src/internals/stream_controller.rs', sctl_shape)

    if prop == 'C03':
        # probes for two known findings (DESIGN 5, D5): both operators are built on zip, whose pairing semantics differ from theirs
        def built_on_zip(rel, st, what):
            def f():
                src = _read(repo, rel)
                toks = rxprep.strip_test_mods(tree(src))
                fields = struct_fields(toks, st, src)
                if fields is None:
                    raise rxprep.AnchorLost('struct %s' % st)
                if any('Zip' in ty for _f, _p, ty in fields):
                    return 'failed', what
            return f
        def rsg():
            src = _read(repo, 'src/utils/ready_set_go.rs')
            toks = rxprep.strip_test_mods(tree(src))
            body, _ = rxprep.find_fn(toks, 'ready_set_go', None)
            creates = rxprep.find_calls(body.kids, 'create')
            if len(creates) != 1:
                raise rxprep.AnchorLost('Observable::create in ready_set_go')
            cl = rxprep.parse_closure(creates[0][2].kids, src)
            if cl is None or len(cl.body) != 1 or not cl.body[0].is_group('{'):
                raise rxprep.AnchorLost('create closure of ready_set_go')
            stmts = [re.sub(r'\s+', '', src[st[0].start:st[-1].end]) for st in rxprep.split_statements(cl.body[0].kids)]
            sub = [i for i, t in enumerate(stmts) if '.inner_subscribe(' in t]
            act = [i for i, t in enumerate(stmts) if re.fullmatch(r'f\(\)', t)]
            if len(sub) != 1 or len(act) != 1:
                return 'undecided', 'ready_set_go: body not recognised: %s' % stmts
            if act[0] < sub[0]:
                return 'failed', 'ready_set_go runs its action BEFORE subscribing: whatever the action emits is missed by the subscriber'
        ob('ready_set_go.subscribe_before_action', 'src/utils/ready_set_go.rs', rsg)
        ob('combine_latest.definition', 'src/operators/combine_latest.rs', built_on_zip(
            'src/operators/combine_latest.rs', 'CombineLatest',
            'combine_latest is zip + map: it emits only when EVERY input has a new item, not "on each item the latest of every source"'))
        ob('sequence_equal.definition', 'src/operators/sequence_equal.rs', built_on_zip(
            'src/operators/sequence_equal.rs', 'SequenceEqual',
            'sequence_equal is built on zip, which stops at the shortest input: sequences of different length that agree on the common prefix are reported equal'))

    if prop in ('C02', 'C03', 'C04'):
        # glue obligations: the public operator method hands its parameters, unchanged and in order, to `<Type>::new`, `new` stores them
        # unchanged, and `execute` reads them back from the fields it captured (the Verus units take the captured values as given)
        for path in sorted(glob.glob(os.path.join(repo, 'src', 'operators', '*.rs'))):
            name = os.path.splitext(os.path.basename(path))[0]
            rel = os.path.relpath(path, repo)
            ob('%s.glue' % name, rel, lambda path=path: glue(path))

    if prop == 'C04':
        # every error handler handed to new_observer forwards the error it RECEIVED (its own parameter, possibly cloned) whenever it
        # calls sink_error: a handler that forwards some other RxError changes the payload (C04).  Decided on the token tree for all
        # operator files, including those whose handlers are not extractable.
        for path in sorted(glob.glob(os.path.join(repo, 'src', 'operators', '*.rs'))):
            name = os.path.splitext(os.path.basename(path))[0]
            rel = os.path.relpath(path, repo)
            def h(path=path):
                src = open(path).read()
                toks = rxprep.strip_test_mods(tree(src))
                bad = []
                for parent, idx, g in rxprep.find_calls(toks, 'new_observer'):
                    parts = rxprep.split_commas(g.kids)
                    if len(parts) != 3:
                        continue
                    cl = rxprep.parse_closure(parts[1], src)
                    if cl is None or len(cl.params) < 2:
                        continue
                    pname = cl.params[1][0]
                    # local names for the same payload: `let a = e;` / `let a = e.clone();`
                    same = {pname, pname + '.clone()'}
                    btxt = re.sub(r'\s+', ' ', src[cl.body[0].start:cl.body[-1].end]) if cl.body else ''
                    for m in re.finditer(r'let (?:mut )?(\w+) = (\w+)(\.clone\(\))? ?;', btxt):
                        if m.group(2) in [x.split('.')[0] for x in same]:
                            same.add(m.group(1)); same.add(m.group(1) + '.clone()')
                    # sink_error calls directly in this handler (not inside a nested new_observer)
                    def visit(ts):
                        for k, t in enumerate(ts):
                            if t.kind == 'group':
                                if k > 0 and ts[k - 1].is_id('new_observer'):
                                    continue
                                visit(t.kids)
                            if t.is_id('sink_error') and k + 1 < len(ts) and ts[k + 1].is_group('('):
                                arg = re.sub(r'\s+', '', src[ts[k + 1].start + 1:ts[k + 1].end - 1])
                                if pname == '_' or arg not in same:
                                    bad.append('sink_error(%s) in an error handler whose parameter is `%s`' % (arg, pname))
                    visit(cl.body)
                if bad:
                    return 'failed', 'an error handler forwards something other than the error it received: ' + '; '.join(bad)
            ob('%s.error_forwards_received_payload' % name, rel, h)

    if prop in ('C10', 'C13'):
        # per-subscription state of the subjects' observable(): every subscribe() through the SAME Observable handle must get its
        # own inner-subscription slot (same frame obligation as C14, applied to `fn observable`)
        for rel in ('src/subjects/subject.rs', 'src/subjects/behavior_subject.rs', 'src/subjects/replay_subject.rs'):
            def f(rel=rel):
                src = _read(repo, rel)
                try:
                    sk = rxprep.analyse(src, 'observable', None)
                except rxprep.AnchorLost as e:
                    return 'undecided', 'skeleton: %s' % e
                if sk.outer_cells:
                    return 'failed', 'observable() creates state cell(s) %s outside the closure passed to Observable::create: shared by every subscription made through the same Observable value' % sorted(sk.outer_cells)
                for nm, txt in sk.outer_lets.items():
                    t = re.sub(r'\s+', '', txt)
                    if re.search(r'\.(write|read)\(\)', t):
                        return 'failed', 'observable() reads or advances shared state once per Observable value instead of once per subscription (`%s` outside the closure passed to Observable::create): two subscriptions made through the same handle get the same value (e.g. the same registration key)' % re.sub(r'\s+', ' ', txt)[:160]
            ob('%s.observable.per_subscription_state' % os.path.basename(rel)[:-3], rel, f)
    if prop == 'C10':
        # AsyncSubject = inner Subject followed by take_last(1): both parts are under contract separately (Kani Subject harnesses; Verus
        # take_last unit + lemma last_is_take_last_1); this obligation pins the composition itself
        def async_comp():
            src = _read(repo, 'src/subjects/async_subject.rs')
            toks = rxprep.strip_test_mods(tree(src))
            ms = impl_methods(toks, 'AsyncSubject')
            need = {'next': '{self.subject.next(item);}', 'error': '{self.subject.error(err);}', 'complete': '{self.subject.complete();}',
                    'observable': '{self.subject.observable().take_last(1).clone()}'}
            for name, want in need.items():
                if name not in ms:
                    raise rxprep.AnchorLost('AsyncSubject::%s' % name)
                got = re.sub(r'\s+', '', src[ms[name].start:ms[name].end])
                if got != want:
                    return 'undecided', 'AsyncSubject::%s is no longer `%s` (composition Subject . take_last(1) not recognised): %s' % (name, want, got[:120])
        ob('async_subject.is_subject_then_take_last_1', 'src/subjects/async_subject.rs', async_comp)
    if prop == 'C13':
        for rel, st in (('src/operators/publish.rs', 'Publish'), ('src/operators/ref_count.rs', 'RefCount'), ('src/operators/replay.rs', 'Replay')):
            def g(rel=rel, st=st):
                src = _read(repo, rel)
                toks = rxprep.strip_test_mods(tree(src))
                fields = struct_fields(toks, st, src)
                if fields is None:
                    raise rxprep.AnchorLost('struct %s' % st)
                for f_, _p, ty in fields:
                    if re.search(r'\bObserver<', re.sub(r'\s+', '', ty)):
                        return 'failed', '%s caches an Observer in field `%s`: every connect()/source subscription shares its callback slots, so ending one connection kills the next' % (st, f_)
            ob('%s.no_cached_observer' % st.lower(), rel, g)

    if prop == 'C14':
        for path in sorted(glob.glob(os.path.join(repo, 'src', 'operators', '*.rs'))):
            name = os.path.splitext(os.path.basename(path))[0]
            if name in C14_EXEMPT or name == 'mod':
                continue
            rel = os.path.relpath(path, repo)
            ob('%s.per_subscription_state' % name, rel, lambda path=path, name=name: c14_frame(path, name))

    if prop == 'C14':
        # creation functions: a cold source must be re-subscribable, so nothing mutable may be built outside the closure passed to
        # Observable::create (an `Arc<Mutex<iterator>>` shared by all subscriptions is consumed by the first one)
        for path in sorted(glob.glob(os.path.join(repo, 'src', 'observables', '*.rs'))):
            name = os.path.splitext(os.path.basename(path))[0]
            if name == 'mod':
                continue
            rel = os.path.relpath(path, repo)
            def cf(path=path, name=name):
                src = open(path).read()
                toks = rxprep.strip_test_mods(tree(src))
                try:
                    body, _ = rxprep.find_fn(toks, name, None)
                except rxprep.AnchorLost as e:
                    return 'undecided', 'creation function `%s` not found: %s' % (name, e)
                creates = rxprep.find_calls(body.kids, 'create')
                if not creates:
                    return None      # built from other creation functions (from_result) or thread-based (interval, timer: C15/C16)
                first = min(c[2].start for c in creates)
                outside = re.sub(r'\s+', '', src[body.start:first])
                m = re.search(r'(RwLock|Mutex|RefCell|Cell|Atomic\w*|Subject|Observer)(::<[^>]*>)?::new\(', outside)
                if m:
                    return 'failed', 'creation function `%s` builds shared mutable state (`%s`) outside the closure passed to Observable::create: every subscription of the same Observable value shares it, so a second subscriber does not get what it would have received alone' % (name, m.group(0))
            ob('src_%s.per_subscription_state' % name, rel, cf)

    if prop in ('C01', 'C05', 'C06', 'C17', 'C14', 'C10', 'C13'):
        def a7():
            bad = []
            for path in glob.glob(os.path.join(repo, 'src', '**', '*.rs'), recursive=True):
                if os.sep + 'web' + os.sep in path:
                    continue   # feature "web" (wasm), not part of the default build
                src = open(path).read()
                toks = rxprep.strip_test_mods(tree(src))
                for _, _, t in walk(toks):
                    if t.kind == 'ident' and (t.text == 'unsafe' or t.text.startswith('Atomic') or t.text in ('RefCell', 'UnsafeCell', 'OnceLock', 'OnceCell', 'static')):
                        if t.text == 'static':
                            continue
                        bad.append('%s: %s' % (os.path.relpath(path, repo), t.text))
            if bad:
                return 'undecided', 'A7: constructs outside the handled subset: %s' % bad[:5]
        ob('a7.no_unsafe_no_atomics', 'src/', a7)
    return obls


def c14_frame(path, name):
    """every piece of state a handler mutates is created inside the closure passed to Observable::create"""
    src = open(path).read()
    toks = rxprep.strip_test_mods(tree(src))
    # 1. the operator struct holds no mutable shared state
    structs = [toks[i + 1].text for i, t in enumerate(toks) if t.is_id('struct') and i + 1 < len(toks) and toks[i + 1].kind == 'ident']
    for st in structs:
        for f, _p, ty in struct_fields(toks, st, src) or []:
            tyc = re.sub(r'\s+', '', ty)
            if re.search(r'\b(RwLock|Mutex|Observer|Subject|BehaviorSubject|ReplaySubject|AsyncSubject|Cell|RefCell)<', tyc) or re.search(r'\bAtomic', tyc):
                return 'failed', 'operator struct %s holds shared mutable state in field `%s: %s`: it is shared by every subscription' % (st, f, ty)
    # 2. execute creates no state cell outside the create-closure
    try:
        sk = rxprep.analyse(src, 'execute', None)
    except rxprep.AnchorLost as e:
        return 'undecided', 'skeleton: %s' % e
    if sk.outer_cells:
        return 'failed', 'state cell(s) %s are created in execute() outside the closure passed to Observable::create: shared by every subscription' % sorted(sk.outer_cells)
    for nm, txt in sk.outer_lets.items():
        t = re.sub(r'\s+', '', txt)
        if re.search(r'(RwLock|Mutex|Cell|Atomic\w*)::new\(', t) or re.search(r'(Subject|Observer)(::<[^>]*>)?::new\(', t):
            return 'failed', 'execute() creates shared state `%s` outside the closure passed to Observable::create' % txt
    # 3. captured FunctionWrappers are only called / cloned inside the create closure (never cleared or consumed)
    body_txt = re.sub(r'\s+', '', src[sk.body_group.start:sk.body_group.end])
    if re.search(r'\.call_and_clear_if_available\(|\.clear\(\)', body_txt) and not re.search(r'(vec|items|results)\w*\.clear\(\)', body_txt):
        return 'failed', 'a captured callable is cleared/consumed (clear / call_and_clear_if_available) inside the create-closure: FunctionWrapper clones share one slot, so the callable is gone for every later subscription'
    return None


def _params_of(hdr, src):
    pg = next((t for t in hdr if t.is_group('(')), None)
    out = []
    if pg is None:
        return out
    parts, cur, depth = [], [], 0
    for t in pg.kids:
        if t.is_p('<'):
            depth += 1
        elif t.is_p('>'):
            depth -= 1
        if t.is_p(',') and depth <= 0:
            parts.append(cur); cur = []
        else:
            cur.append(t)
    if cur:
        parts.append(cur)
    for p_ in parts:
        if p_ and p_[0].kind == 'ident' and not p_[0].is_id('self') and any(t.is_p(':') for t in p_):
            out.append(p_[0].text)
    return out


def glue(path):
    """`pub fn op(&self, a, b) { Type::new(a, b).execute(self.clone()) }` and `Type::new(a, b) { Type { f: a | FunctionWrapper::new(a) |
    a.to_vec() | <other operator>::new(..), .. } }`: parameters reach the fields unchanged"""
    src = open(path).read()
    toks = rxprep.strip_test_mods(tree(src))
    problems = []
    # 1. methods of `impl Observable` in this file
    obs_methods = impl_methods(toks, 'Observable')
    for mname, body in obs_methods.items():
        txt = re.sub(r'\s+', '', src[body.start:body.end])
        m = re.fullmatch(r'\{(?:\w+::)*(\w+)(?:::<[^()]*>)?::new\(([^()]*)\)\.execute\(self\.clone\(\)\)\}', txt)
        if not m:
            continue   # not the plain glue shape (publish(), ref_count(), to_vec() ..): nothing is claimed here
        # header of the method to get its parameter names
        hdr = None
        for i, t in enumerate(toks):
            pass
        args = [a for a in m.group(2).split(',') if a]
        # find the fn header tokens inside the impl block
        params = None
        for parent, i, t in walk(toks):
            if t.is_id('fn') and i + 1 < len(parent) and parent[i + 1].is_id(mname):
                j = i + 2
                hdr = []
                while j < len(parent) and not parent[j].is_group('{'):
                    hdr.append(parent[j]); j += 1
                if j < len(parent) and parent[j] is body:
                    params = _params_of(hdr, src)
                    break
        if params is None:
            continue
        if args != params:
            problems.append('Observable::%s passes (%s) to %s::new, its parameters are (%s)' % (mname, ', '.join(args), m.group(1), ', '.join(params)))
    # 2. `new` of every operator struct in this file
    structs = [toks[i + 1].text for i, t in enumerate(toks) if t.is_id('struct') and i + 1 < len(toks) and toks[i + 1].kind == 'ident']
    for st in structs:
        ms = impl_methods(toks, st)
        if 'new' not in ms:
            continue
        body = ms['new']
        # parameters of new
        params = None
        for parent, i, t in walk(toks):
            if t.is_id('fn') and i + 1 < len(parent) and parent[i + 1].is_id('new'):
                j = i + 2
                hdr = []
                while j < len(parent) and not parent[j].is_group('{'):
                    hdr.append(parent[j]); j += 1
                if j < len(parent) and parent[j] is body:
                    params = _params_of(hdr, src)
                    break
        if params is None:
            continue
        txt = re.sub(r'\s+', '', src[body.start:body.end])
        for prm in params:
            # every use of the parameter inside `new` must be one of the identity shapes
            for m in re.finditer(r'(?<![\w.])%s(?![\w])' % re.escape(prm), txt):
                a, b = m.start(), m.end()
                before, after = txt[max(0, a - 24):a], txt[b:b + 12]
                ok = (before.endswith(('{', ',', ':', 'FunctionWrapper::new(', '::new(')) or before.endswith(('assert!(', '|_|', '|x|!', 'move|x|!', '(x)', '=')) or re.search(r'(move)?\|[^|]*\|!?$', before) is not None)
                ok_after = after.startswith((',', '}', ')', ':', '.to_vec()', '.clone()', '>0', '(x)', '(')) or after == ''
                if not (ok and ok_after):
                    problems.append('%s::new does not store its parameter `%s` unchanged: ...%s[%s]%s...' % (st, prm, before[-16:], prm, after))
                    break
    if problems:
        return 'failed', '; '.join(problems[:3])
    return None
