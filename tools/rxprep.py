"""rxprep: mechanical extraction of operator handler bodies from /repo for Verus.

What is copied: the body of each handler closure (the three closures passed to `new_observer`, named helper
closures defined in the create-closure, and the source closure of creation functions), as a *slice of the file*,
with exactly these span replacements (DESIGN 3.2):

  R1  <cell-alias>.write().unwrap()  ->  (&mut *<cell>)      <cell-alias>.read().unwrap()  ->  (&*<cell>)
      where <cell> was created as  `let <cell> = Arc::new(RwLock::new(INIT))`  and aliases are
      `let A = Arc::clone(&B)` / `let A = B.clone()`            (dropped: the lock; sound sequentially)
  R2  every alias of the StreamController variable (`let A = sctl.clone()`)  ->  `sctl`
  R2' aliases of captured plain values (`let A = B.clone()`)  ->  the canonical capture name
  R3  closure parameter `_`  ->  `_pK`
  R4  call of a helper closure  NAME(args)  ->  <op>_NAME(<helper's extra params>, args)
Nothing else.  A nested closure, an unknown use of a cell, `inner_subscribe`/`subscribe` inside a handler make the unit
NOT EXTRACTABLE (NotExtractable) - the caller reports exit 2 for the unit, never an alarm.

The skeleton (wiring) recognised around the handlers is returned as facts; unknown statements in the create-closure are
returned as `unknown` and make the skeleton obligation undecided.
"""
import hashlib
import re
from dataclasses import dataclass, field
from typing import Dict, List, Optional, Tuple

from rxlex import Tok, tree, walk, split_commas, match_seq, LexError


class NotExtractable(Exception):
    pass


class AnchorLost(Exception):
    pass


# ----------------------------------------------------------------------------------------------------
# locating things

def strip_test_mods(toks: List[Tok]) -> List[Tok]:
    """drop `#[cfg(test)] mod x {..}` / `#[cfg(all(test, ..))] mod x {..}` items"""
    out = []
    i = 0
    while i < len(toks):
        t = toks[i]
        if t.is_p('#') and i + 1 < len(toks) and toks[i + 1].is_group('['):
            attr = toks[i + 1]
            txt = ''.join(k.text for _, _, k in walk(attr.kids))
            if txt.startswith('cfg') and 'test' in txt:
                # skip attribute and following item up to and including its brace group
                j = i + 2
                while j < len(toks) and not toks[j].is_group('{'):
                    j += 1
                i = j + 1
                continue
        out.append(t)
        i += 1
    return out


def find_fn(toks: List[Tok], name: str, impl: Optional[str] = None) -> Tok:
    """return the body group of `fn name`, optionally inside `impl ... impl_name ... {}`"""
    def search(ts):
        for i, t in enumerate(ts):
            if t.is_id('fn') and i + 1 < len(ts) and ts[i + 1].is_id(name):
                for j in range(i + 2, len(ts)):
                    if ts[j].is_group('{'):
                        return ts[j], ts[i:j]
                    if ts[j].is_p(';'):
                        break
        return None
    if impl is None:
        r = search(toks)
        if r:
            return r
        # look inside impls too
    for i, t in enumerate(toks):
        if t.is_id('impl'):
            j = i + 1
            hdr = []
            while j < len(toks) and not toks[j].is_group('{'):
                hdr.append(toks[j]); j += 1
            if j >= len(toks):
                continue
            # the implemented type is the last identifier path before `where`/`{` that is not a generic param
            hdr_ids = []
            for h in hdr:
                if h.is_id('where'):
                    break
                if h.kind == 'ident':
                    hdr_ids.append(h.text)
            if impl is None or impl in hdr_ids:
                r = search(toks[j].kids)
                if r:
                    return r
    raise AnchorLost('fn %s%s not found' % (name, ' in impl ' + impl if impl else ''))


@dataclass
class Closure:
    toks: List[Tok]            # all tokens, from `move`/`|` to the end of the body
    params: List[Tuple[str, Optional[str]]]   # (name, type text or None)
    body: List[Tok]            # body tokens (a single brace group, or expression tokens)
    is_move: bool


def parse_closure(toks: List[Tok], src: str) -> Optional[Closure]:
    i = 0
    is_move = False
    if i < len(toks) and toks[i].is_id('move'):
        is_move = True
        i += 1
    if i >= len(toks) or not toks[i].is_p('|'):
        return None
    i += 1
    params_toks = []
    while i < len(toks) and not toks[i].is_p('|'):
        params_toks.append(toks[i]); i += 1
    if i >= len(toks):
        return None
    i += 1
    # optional `-> T`
    if i + 1 < len(toks) and toks[i].is_p('-') and toks[i + 1].is_p('>'):
        i += 2
        while i < len(toks) and not toks[i].is_group('{'):
            i += 1
    body = toks[i:]
    params = []
    cur = []
    depth_parts = []
    for t in params_toks:
        if t.is_p(','):
            depth_parts.append(cur); cur = []
        else:
            cur.append(t)
    if cur:
        depth_parts.append(cur)
    for p in depth_parts:
        name_t = p[0]
        name = name_t.text
        if name_t.is_id('mut') and len(p) > 1:
            name = p[1].text
        ty = None
        for k, t in enumerate(p):
            if t.is_p(':'):
                ty = src[p[k + 1].start:p[-1].end]
                break
        params.append((name, ty))
    return Closure(toks, params, body, is_move)


def find_calls(toks: List[Tok], method: str):
    """all (parent_list, index_of_ident, group) for `method (…)`"""
    res = []
    for parent, i, t in walk(toks):
        if t.is_id(method) and i + 1 < len(parent) and parent[i + 1].is_group('('):
            res.append((parent, i, parent[i + 1]))
    return res


# ----------------------------------------------------------------------------------------------------
# statements of the create-closure

def split_statements(kids: List[Tok]) -> List[List[Tok]]:
    stmts = []
    cur = []
    i = 0
    n = len(kids)
    while i < n:
        t = kids[i]
        if not cur and t.is_group('{'):
            stmts.append([t]); i += 1
            continue
        if not cur and t.is_id('fn'):
            # a nested fn item: through its body
            while i < n:
                cur.append(kids[i])
                if kids[i].is_group('{'):
                    i += 1
                    break
                i += 1
            stmts.append(cur); cur = []
            continue
        if not cur and t.kind == 'ident' and t.text in ('for', 'while', 'loop', 'if', 'match'):
            # consume through the brace group(s) (and else-chains)
            cur.append(t); i += 1
            while i < n:
                cur.append(kids[i])
                if kids[i].is_group('{'):
                    i += 1
                    if i < n and kids[i].is_id('else'):
                        continue
                    break
                i += 1
            # an `if`/`match` used as trailing expression or followed by `;`
            if i < n and kids[i].is_p(';'):
                i += 1
            stmts.append(cur); cur = []
            continue
        if t.is_p(';'):
            if cur:
                stmts.append(cur)
            cur = []
            i += 1
            continue
        cur.append(t)
        i += 1
    if cur:
        stmts.append(cur)
    return stmts


@dataclass
class Skeleton:
    cells: Dict[str, Tuple[str, int]] = field(default_factory=dict)      # canonical cell -> (init text, decl offset)
    alias: Dict[str, str] = field(default_factory=dict)      # alias -> canonical (cells, sctl, captures)
    sctl: Optional[str] = None
    sctl_arg: Optional[str] = None
    helpers: Dict[str, Closure] = field(default_factory=dict)
    handlers: List[Closure] = field(default_factory=list)    # next, error, complete
    handlers_all: List[List[Closure]] = field(default_factory=list)
    subscribe_target: Optional[str] = None                   # text of the expression `.inner_subscribe` is called on
    n_new_observer: int = 0
    n_inner_subscribe: int = 0
    unknown: List[str] = field(default_factory=list)
    outer_cells: Dict[str, str] = field(default_factory=dict)   # cells created OUTSIDE the create closure (C14)
    outer_lets: Dict[str, str] = field(default_factory=dict)
    create_param: Optional[str] = None
    prologue: List[str] = field(default_factory=list)        # statements before StreamController::new that touch `s`
    body_group: Optional[Tok] = None
    fn_helpers: set = field(default_factory=set)
    guarded_by_is_subscribed: bool = False
    pure_lets: list = field(default_factory=list)
    mut_on_read: set = field(default_factory=set)
    unknown_toks: list = field(default_factory=list)

    def canon(self, name):
        seen = set()
        while name in self.alias and name not in seen:
            seen.add(name)
            name = self.alias[name]
        return name


def _text(src, toks):
    return src[toks[0].start:toks[-1].end] if toks else ''


def _cell_init(stmt, src):
    """`let [mut] X = Arc::new(RwLock::new( INIT ))` -> (X, INIT text)"""
    i = 1
    if len(stmt) > i and stmt[i].is_id('mut'):
        i += 1
    if len(stmt) <= i or stmt[i].kind != 'ident':
        return None
    name = stmt[i].text
    e = i + 1
    if len(stmt) > e and stmt[e].is_p(':') and not (len(stmt) > e + 1 and stmt[e + 1].is_p(':')):
        # an explicit type annotation `let X: Arc<RwLock<T>> = ..` says nothing new (Verus re-checks the type of the initialiser)
        while e < len(stmt) and not stmt[e].is_p('='):
            e += 1
    j = match_seq(stmt, e, ['=', 'Arc', ':', ':', 'new', '(…)'])
    if j < 0 or j != len(stmt):
        return None
    g = stmt[j - 1]
    k = match_seq(g.kids, 0, ['RwLock', ':', ':', 'new', '(…)'])
    if k < 0 or k != len(g.kids):
        return None
    inner = g.kids[k - 1]
    init = src[inner.start + 1:inner.end - 1].strip()
    if init.endswith(','):
        init = init[:-1].rstrip()   # rustfmt's trailing comma
    return name, init


def _alias(stmt):
    """`let A = Arc::clone(&B)` | `let A = B.clone()` -> (A, B)"""
    i = 1
    if len(stmt) > i and stmt[i].is_id('mut'):
        i += 1
    if len(stmt) <= i or stmt[i].kind != 'ident':
        return None
    a = stmt[i].text
    j = match_seq(stmt, i + 1, ['=', 'Arc', ':', ':', 'clone', '(…)'])
    if j == len(stmt) and j > 0:
        g = stmt[j - 1].kids
        if len(g) == 2 and g[0].is_p('&') and g[1].kind == 'ident':
            return a, g[1].text
        return None
    j = match_seq(stmt, i + 1, ['=', 'ident', '.', 'clone', '()'])
    if j == len(stmt) and j > 0:
        return a, stmt[i + 2].text
    return None


def scan_create_closure(body: Tok, src: str, sk: Skeleton, create_param: str):
    """walk the statements of the create closure (descending into bare blocks)"""
    def visit(kids):
        for st in split_statements(kids):
            if len(st) == 1 and st[0].is_group('{'):
                visit(st[0].kids)
                continue
            txt = _text(src, st)
            if st[0].is_id('if') and st[-1].is_group('{') and re.sub(r'\s+', '', _text(src, st[1:-1])) == '%s.is_subscribed()' % (create_param or ''):
                # `if s.is_subscribed() { ..wiring.. }` : the wiring is guarded by the subscriber still listening (start_with)
                sk.guarded_by_is_subscribed = True
                visit(st[-1].kids)
                continue
            if st[0].is_id('fn') and len(st) >= 3 and st[1].kind == 'ident' and st[-1].is_group('{'):
                # nested fn item: lifted like a helper closure, with its own parameter list
                pg = next((t for t in st[2:] if t.is_group('(')), None)
                params = []
                if pg is not None:
                    parts, curp, depth = [], [], 0
                    for t in pg.kids:
                        if t.is_p('<'):
                            depth += 1
                        elif t.is_p('>'):
                            depth -= 1
                        if t.is_p(',') and depth <= 0:
                            parts.append(curp); curp = []
                        else:
                            curp.append(t)
                    if curp:
                        parts.append(curp)
                    for part in parts:
                        if part and part[0].kind == 'ident':
                            colon = next((k for k, t in enumerate(part) if t.is_p(':')), None)
                            ty = src[part[colon + 1].start:part[-1].end] if colon is not None else None
                            params.append((part[0].text, ty))
                sk.helpers[st[1].text] = Closure(st, params, [st[-1]], False)
                sk.fn_helpers.add(st[1].text)
                continue
            if st[0].is_id('let'):
                c = _cell_init(st, src)
                if c:
                    sk.cells[c[0]] = (c[1], st[0].start)
                    continue
                a = _alias(st)
                if a:
                    sk.alias[a[0]] = a[1]
                    continue
                i = 2 if st[1].is_id('mut') else 1
                name = st[i].text if st[i].kind == 'ident' else None
                j = match_seq(st, i + 1, ['=', 'StreamController', ':', ':', 'new', '(…)'])
                if name and j == len(st) and j > 0:
                    sk.sctl = name
                    sk.sctl_arg = _text(src, st[j - 1].kids)
                    continue
                # `let X = { ... }` : a block that builds something (typically observers): descend
                if name and st[i + 1].is_p('=') and len(st) == i + 3 and st[i + 2].is_group('{'):
                    visit(st[i + 2].kids)
                    if find_calls(st[i + 2].kids, 'new_observer'):
                        continue
                    sk.unknown.append(txt)
                    continue
                # helper closure
                if name and st[i + 1].is_p('='):
                    cl = parse_closure(st[i + 2:], src)
                    if cl:
                        sk.helpers[name] = cl
                        continue
                # a plain local value (`let total = observables.len() + 1;`): no closure, nothing that emits, subscribes or touches
                # the controller / the subscriber -> irrelevant to the wiring
                danger = {'inner_subscribe', 'subscribe', 'new_observer', 'next', 'error', 'complete', 'unsubscribe', 'spawn', 'post',
                          'finalize', 'sink_next', 'sink_error', 'sink_complete', 'sink_complete_force', 'upstream_abort_observe',
                          'set_on_unsubscribe', 'set_on_finalize', 'call', create_param or '', sk.sctl or ''}
                flat = [u for _, _, u in walk(st)]
                if name and not any((u.kind == 'ident' and (u.text in danger or sk.canon(u.text) == (sk.sctl or '\0'))) or u.is_p('|') or u.is_id('move') for u in flat):
                    sk.pure_lets.append(txt)
                    continue
                sk.unknown.append(txt)
                continue
            # expression statement: look for `.inner_subscribe(` / `new_observer(`
            calls = find_calls(st, 'inner_subscribe')
            if calls:
                for parent, idx, g in calls:
                    if parent is st:
                        sk.subscribe_target = _text(src, st[:idx - 1]) if idx >= 1 else ''
                continue
            if find_calls(st, 'new_observer'):
                continue
            if sk.sctl is None:
                sk.prologue.append(txt)
            else:
                sk.unknown.append(txt)
                sk.unknown_toks.append(st)
    visit(body.kids)
    # aliases anywhere below (e.g. inside the `.map(move |_| { let sctl_next = sctl.clone(); ... })` that builds observers)
    def deep_aliases(kids):
        for st in split_statements(kids):
            if st and st[0].is_id('let'):
                a = _alias(st)
                if a and a[0] not in sk.alias and a[0] != a[1]:
                    sk.alias[a[0]] = a[1]
            for t in st:
                if t.kind == 'group':
                    deep_aliases(t.kids)
    deep_aliases(body.kids)
    sk.n_inner_subscribe = len(find_calls(body.kids, 'inner_subscribe'))
    # handlers: every `new_observer(a, b, c)` in the closure
    for parent, idx, g in find_calls(body.kids, 'new_observer'):
        sk.n_new_observer += 1
        parts = split_commas(g.kids)
        cls = [parse_closure(p, src) for p in parts]
        if len(cls) == 3 and all(cls):
            sk.handlers_all.append(cls)
    if sk.handlers_all:
        sk.handlers = sk.handlers_all[0]


def analyse(src: str, fn: str = 'execute', impl: Optional[str] = None) -> Skeleton:
    toks = strip_test_mods(tree(src))
    body, _hdr = find_fn(toks, fn, impl)
    sk = Skeleton()
    # statements of the fn body before/around the create call
    creates = [c for c in find_calls(body.kids, 'create')]
    if not creates:
        raise AnchorLost('no Observable::create(..) call in fn %s' % fn)
    parent, idx, g = creates[0]
    cl = parse_closure(g.kids, src)
    if cl is None or len(cl.body) != 1 or not cl.body[0].is_group('{'):
        raise AnchorLost('argument of create is not a block closure')
    sk.create_param = cl.params[0][0] if cl.params else None
    sk.body_group = cl.body[0]
    # outer lets (C14: cells created outside the create-closure)
    for st in split_statements(body.kids):
        if st and st[0].is_id('let'):
            c = _cell_init(st, src)
            if c:
                sk.outer_cells[c[0]] = c[1]
            else:
                i = 2 if st[1].is_id('mut') else 1
                if st[i].kind == 'ident':
                    sk.outer_lets[st[i].text] = _text(src, st)
    scan_create_closure(cl.body[0], src, sk, sk.create_param)
    return sk


# ----------------------------------------------------------------------------------------------------
# body rewriting

@dataclass
class Extracted:
    text: str                 # rewritten body text (block or expression)
    orig: str                 # original slice
    span: Tuple[int, int]
    sha256: str
    params: List[Tuple[str, Optional[str]]]
    replacements: List[Tuple[str, str]]
    cells_used: List[str]
    captures_used: List[str]
    sctl_used: bool
    helpers_used: List[str]
    loops: int


KEYWORDS = set('as break const continue crate else enum extern false fn for if impl in let loop match mod move mut pub ref '
               'return self Self static struct super trait true type unsafe use where while dyn'.split())


# block-bodied or expression-bodied plain forwarders
FORWARDERS = (r'move\|(\w+)\|\{?(\w+)\.next\(\1\);?\}?', r'move\|(\w+)\|\{?(\w+)\.error\(\1\);?\}?', r'move\|\|\{?(\w+)\.complete\(\);?\}?')


def rewrite_body(cl: Closure, sk: Skeleton, src: str, op: str, captures: Dict[str, str],
                 helper_sigs: Dict[str, List[str]], allow_closure_params=False, allow_calls=(), world=False) -> Extracted:
    body = cl.body
    if not body:
        raise NotExtractable('empty closure body')
    start, end = body[0].start, body[-1].end
    reps = []        # (start, end, new)
    cells_used, caps_used, helpers_used = [], [], []
    sctl_used = False
    loops = 0
    local_names = set(p[0] for p in cl.params)

    def scan(ts):
        nonlocal sctl_used, loops
        i = 0
        while i < len(ts):
            t = ts[i]
            prev = ts[i - 1] if i > 0 else None
            if t.kind == 'group':
                scan(t.kids)
                i += 1
                continue
            if t.is_id('move') or (t.is_p('|') and (prev is None or prev.is_id('move') or (prev.kind == 'punct' and prev.text in '=,(') or
                                                     (prev.kind == 'group' and False))):
                # a nested closure (a `|` in operand position).  `a | b` on values does not occur in handlers.
                raise NotExtractable('nested closure in handler body')
            if t.kind == 'ident' and t.text in ('while', 'loop'):
                loops += 1
            if t.is_id('inner_subscribe') and prev is not None and prev.is_p('.') and i + 1 < len(ts) and ts[i + 1].is_group('(') \
                    and find_calls(ts[i + 1].kids, 'new_observer'):
                # R7': `E.inner_subscribe(<sctl>.new_observer(a, b, c))` inside a handler  ->  `sctl.subscribe_inner(E)`.
                # The nested handlers a, b, c are extracted as a unit of their own (next new_observer call in textual order).
                g = ts[i + 1]
                inner = find_calls(g.kids, 'new_observer')
                par, idx, _ = inner[0]
                recv_ok = idx >= 2 and par[idx - 1].is_p('.') and par[idx - 2].kind == 'ident' and sk.canon(par[idx - 2].text) == sk.sctl
                if not recv_ok or len(inner) != 1:
                    raise NotExtractable('inner_subscribe with an observer that is not `<sctl>.new_observer(..)`')
                # receiver expression E: back to the start of the statement
                b = i - 1
                while b > 0 and not (ts[b - 1].is_p(';') or ts[b - 1].is_p('=')):
                    b -= 1
                reps.append((ts[b].start, ts[b].start, 'sctl.subscribe_inner('))
                reps.append((prev.start, g.end, ')'))
                sctl_used = True
                i += 2
                continue
            if world and t.is_id('subscribe') and prev is not None and prev.is_p('.') and i + 1 < len(ts) and ts[i + 1].is_group('('):
                # R13 (connect idiom): `E.subscribe(move |x| { A.next(x); }, move |e| { B.error(e); }, move || { C.complete(); })` where
                # A, B, C are local clones of ONE captured subject S  ->  `E.subscribe_forwarding_to(&S, world)`
                g = ts[i + 1]
                parts = split_commas(g.kids)
                if parts and not parts[-1]:
                    parts = parts[:-1]
                names = []
                if len(parts) == 3:
                    for part, pat in zip(parts, FORWARDERS):
                        txt = re.sub(r'\s+', '', src[part[0].start:part[-1].end])
                        m = re.fullmatch(pat, txt)
                        names.append(m.group(m.lastindex) if m else None)
                targets = set(local_alias.get(n) for n in names) if names and all(names) else set()
                if len(targets) != 1 or None in targets:
                    raise NotExtractable('subscribe(..) whose three callbacks are not plain forwarders to clones of one captured subject')
                subj = targets.pop()
                reps.append((t.start, g.end, 'subscribe_forwarding_to(&%s, world)' % subj))
                if subj not in caps_used:
                    caps_used.append(subj)
                i += 2
                continue
            if world and t.is_id('unsubscribe') and prev is not None and prev.is_p('.') and i + 1 < len(ts) and ts[i + 1].is_group('(') and not ts[i + 1].kids:
                # R14: `X.unsubscribe()` on a stored connection is an effect on the world log
                reps.append((t.start, ts[i + 1].end, 'unsubscribe_in(world)'))
                i += 2
                continue
            if t.kind == 'ident' and t.text in ('inner_subscribe', 'subscribe', 'new_observer', 'spawn') and t.text not in allow_calls:
                raise NotExtractable('handler subscribes/creates observers (%s)' % t.text)
            if t.is_id('Arc'):
                j = match_seq(ts, i, ['Arc', ':', ':', 'clone', '(…)'])
                if j > 0:
                    g = ts[j - 1].kids
                    if len(g) == 2 and g[0].is_p('&') and g[1].kind == 'ident' and (sk.canon(g[1].text) in sk.cells or sk.canon(g[1].text) in sk.outer_cells):
                        c = sk.canon(g[1].text)
                        # handing a clone of the cell's Arc to a lifted nested fn = handing over the cell (R1')
                        reps.append((t.start, ts[j - 1].end, '(&mut *%s)' % c))
                        if c not in cells_used:
                            cells_used.append(c)
                        i = j
                        continue
            if t.kind == 'ident' and not (prev is not None and prev.is_p('.')) and not (i + 1 < len(ts) and ts[i + 1].is_p(':') and i + 2 < len(ts) and ts[i + 2].is_p(':')):
                name = t.text
                canon = sk.canon(name)
                # local shadowing (`let mut n = n.write()..`) is fine: the RHS is rewritten, the new binding is a local
                if canon in sk.cells or canon in sk.outer_cells:
                    j = match_seq(ts, i + 1, ['.', 'write', '()', '.', 'unwrap', '()'])
                    k = match_seq(ts, i + 1, ['.', 'read', '()', '.', 'unwrap', '()'])
                    if (j > 0 or k > 0) and canon in shadowed and name not in local_bound:
                        raise NotExtractable('state cell `%s` is used (as `%s`) after a local of the same name was bound: the extraction would capture the local' % (canon, name))
                    if j > 0:
                        reps.append((t.start, ts[j - 1].end, '(&mut *%s)' % canon))
                        if canon not in cells_used:
                            cells_used.append(canon)
                        i = j
                        continue
                    if k > 0:
                        reps.append((t.start, ts[k - 1].end, ('(&mut *%s)' if canon in sk.mut_on_read else '(&*%s)') % canon))
                        if canon not in cells_used:
                            cells_used.append(canon)
                        i = k
                        continue
                    if name in local_bound:
                        i += 1
                        continue
                    raise NotExtractable('cell %s used other than through read()/write().unwrap()' % name)
                if sk.sctl and canon == sk.sctl:
                    if name not in local_bound:
                        sctl_used = True
                        j = match_seq(ts, i + 1, ['.', 'clone', '()'])
                        if j > 0:
                            # every clone of the controller denotes the same controller (R2)
                            reps.append((t.start, ts[j - 1].end, 'sctl'))
                            i = j
                            continue
                        if name != 'sctl':
                            reps.append((t.start, t.end, 'sctl'))
                    i += 1
                    continue
                if canon in sk.helpers and name not in local_bound and i + 1 < len(ts) and ts[i + 1].is_group('('):
                    name = canon
                    g = ts[i + 1]
                    extra = helper_sigs.get(name, [])
                    inner = src[g.start + 1:g.end - 1]
                    # arguments themselves may need rewriting -> handled by scanning the group (replacements inside)
                    reps.append((t.start, t.end, '%s_%s' % (op, name)))
                    if extra:
                        reps.append((g.start + 1, g.start + 1, ', '.join(extra) + (', ' if inner.strip() else '')))
                    if name not in helpers_used:
                        helpers_used.append(name)
                    scan(g.kids)
                    i += 2
                    continue
                if canon in captures and name not in local_bound:
                    if canon not in caps_used:
                        caps_used.append(canon)
                    if canon != name and canon in local_bound:
                        raise NotExtractable('captured `%s` is used (as `%s`) after a local of the same name was bound: the extraction would capture the local' % (canon, name))
                    if canon != name:
                        reps.append((t.start, t.end, canon))
                    i += 1
                    continue
            if t.is_id('let'):
                j8 = match_seq(ts, i, ['let', 'ident', '=', 'ident', '.', 'clone', '()', ';'])
                if j8 > 0 and world and sk.canon(ts[i + 3].text) in captures and ts[i + 3].text not in local_bound:
                    local_alias[ts[i + 1].text] = sk.canon(ts[i + 3].text)   # `let A = S.clone();`: A is another handle on the captured S
                if j8 > 0 and sk.sctl and sk.canon(ts[i + 3].text) == sk.sctl:
                    # `let A = <controller alias>.clone();` inside a handler: A is just another name of the controller (R2)
                    reps.append((t.start, ts[j8 - 1].end, ''))
                    sk.alias.setdefault(ts[i + 1].text, sk.sctl)
                    i = j8
                    continue
                # record locally bound simple names (pattern idents) so that later uses are not mistaken for captures
                j = i + 1
                while j < len(ts) and not ts[j].is_p('=') and not ts[j].is_p(';'):
                    if ts[j].kind == 'ident' and ts[j].text not in KEYWORDS:
                        pending_bind.append(ts[j].text)
                        if ts[j].text in sk.cells or ts[j].text in sk.outer_cells:
                            pending_shadow.append(ts[j].text)
                    elif ts[j].kind == 'group':
                        for _, _, u in walk(ts[j].kids):
                            if u.kind == 'ident' and u.text not in KEYWORDS:
                                pending_bind.append(u.text)
                    j += 1
                i = j          # the pattern itself is not a use
                continue
            if t.is_id('for'):
                loops += 1
                j = i + 1
                while j < len(ts) and not ts[j].is_id('in'):
                    if ts[j].kind == 'ident' and ts[j].text not in KEYWORDS:
                        local_bound.add(ts[j].text)
                    j += 1
                i = j
                continue
            if t.is_p(';') and pending_bind:
                local_bound.update(pending_bind)
                pending_bind.clear()
                shadowed.update(pending_shadow)
                pending_shadow.clear()
            i += 1

    local_bound = set()
    local_alias = {}
    pending_bind = []
    pending_shadow = []
    shadowed = set()      # canonical cell names that a local `let` of the same name has shadowed (hygiene: the cell becomes a
                          # parameter with that name, so a later use of the cell through an alias would be captured by the local)
    scan(body)
    # R3: `_` parameters
    params = []
    for k, (name, ty) in enumerate(cl.params):
        if name == '_':
            name = '_p%d' % k
        params.append((name, ty))
    # apply replacements right-to-left
    reps.sort(key=lambda r: (r[0], r[1]))
    text = src[start:end]
    for s, e, new in reversed(reps):
        text = text[:s - start] + new + text[e - start:]
    orig = src[start:end]
    return Extracted(text=text, orig=orig, span=(start, end), sha256=hashlib.sha256(orig.encode()).hexdigest(),
                     params=params, replacements=[(src[s:e], n) for s, e, n in reps], cells_used=cells_used,
                     captures_used=caps_used, sctl_used=sctl_used, helpers_used=helpers_used, loops=loops)


def line_of(src: str, off: int) -> int:
    return src.count('\n', 0, off) + 1
