"""kanirun: K-refine obligations (Kani/CBMC on the real L0-L2 code through the sequential lock facade)."""
import concurrent.futures as cf
import os
import re
import subprocess
import sys
import time
import tomllib

VERIF = os.path.dirname(os.path.dirname(os.path.abspath(__file__)))
sys.path.insert(0, os.path.join(VERIF, 'tools'))
import kaniprep  # noqa: E402

KANI_FLAGS = ['-Z', 'stubbing', '-Z', 'unstable-options', '--no-memory-safety-checks', '--no-overflow-checks']
NJOBS = int(os.environ.get('VERIF_KANI_JOBS', '12'))


def registry():
    with open(os.path.join(VERIF, 'kani', 'harnesses.toml'), 'rb') as f:
        return tomllib.load(f)


def harness_names(prepared):
    names = {}
    for root, _, files in os.walk(os.path.join(prepared, 'src')):
        for fn in files:
            if fn.endswith('.rs'):
                txt = open(os.path.join(root, fn)).read()
                # macro-generated harnesses: names appear as the first macro argument or `fn name()`
                for m in re.finditer(r'\b(k_[a-z0-9_]+)\b', txt):
                    names[m.group(1)] = os.path.relpath(os.path.join(root, fn), prepared)
    return names


def select(prop, tier):
    """-> list of (harness regex, group dict)"""
    reg = registry()
    out = []
    for g in reg.get('group', []):
        if prop not in g['props']:
            continue
        if tier == 'quick' and g.get('tier', 'quick') == 'thorough':
            continue
        out.append(g)
    return out


def run_one(prepared, name, timeout, extra_flags=(), mem_gb=None):
    t0 = time.time()
    cmd = ['cargo', 'kani'] + KANI_FLAGS + list(extra_flags) + ['--harness', name]
    env = dict(os.environ, CARGO_NET_OFFLINE='true')
    import signal
    def limit():
        import resource
        cap = int(mem_gb or os.environ.get('VERIF_KANI_MEM_GB', '14')) * (1 << 30)
        resource.setrlimit(resource.RLIMIT_AS, (cap, cap))
    p = subprocess.Popen(cmd, cwd=prepared, stdout=subprocess.PIPE, stderr=subprocess.STDOUT, text=True, env=env, start_new_session=True, preexec_fn=limit)
    try:
        out, _ = p.communicate(timeout=timeout)
    except subprocess.TimeoutExpired:
        try:
            os.killpg(p.pid, signal.SIGKILL)
        except ProcessLookupError:
            pass
        p.communicate()
        return {'status': 'undecided', 'detail': 'kani/cbmc timeout after %ds' % timeout, 'seconds': time.time() - t0, 'out': ''}
    secs = time.time() - t0
    m = re.search(r'Verification Time: ([0-9.]+)s', out)
    vt = float(m.group(1)) if m else secs
    if 'VERIFICATION:- SUCCESSFUL' in out:
        cov = re.search(r'(\d+) of (\d+) cover properties satisfied', out)
        if cov and cov.group(1) != cov.group(2):
            return {'status': 'undecided', 'detail': 'vacuity guard: cover property not satisfied (harness end unreachable)', 'seconds': vt, 'out': out[-3000:]}
        nchecks = re.search(r'\*\* 0 of (\d+) failed', out)
        return {'status': 'discharged', 'detail': '', 'seconds': vt, 'checks': int(nchecks.group(1)) if nchecks else 0, 'out': ''}
    if 'VERIFICATION:- FAILED' in out:
        fails = re.findall(r'Failed Checks: (.*)', out)
        if 'out of memory' in out or 'CBMC failed' in out or 'std::bad_alloc' in out:
            return {'status': 'undecided', 'detail': 'cbmc out of memory', 'seconds': vt, 'out': out[-2000:]}
        real = [f for f in fails if 'unwinding assertion' not in f]
        if not real:
            return {'status': 'undecided', 'detail': 'unwinding bound insufficient: ' + '; '.join(fails[:3]), 'seconds': vt, 'out': out[-2000:]}
        return {'status': 'failed', 'detail': 'Kani: ' + ' | '.join(sorted(set(real))[:6]), 'seconds': vt, 'out': out[-4000:]}
    return {'status': 'undecided', 'detail': 'kani did not reach a verdict: ' + out[-1500:], 'seconds': secs, 'out': out[-3000:]}


def collect(prop, repo, scratch, tier, only=None):
    from driver import Obl
    groups = select(prop, tier)
    meta = {'harnesses': 0, 'flags': ' '.join(KANI_FLAGS), 'facade': 'facade/verif_sync.rs (sequential RwLock/HashMap)', 'groups': []}
    obls = []
    if not groups:
        return obls, meta
    prepared = os.path.join(scratch, 'k')
    try:
        kaniprep.prepare(repo, prepared)
    except (kaniprep.PrepError, Exception) as e:
        o = Obl('%s.K.prepare' % prop, 'kani', 'kani/cbmc', [prop])
        o.status = 'undecided'
        o.detail = 'kaniprep: %s' % e
        return [o], meta
    names = harness_names(prepared)
    todo = []
    native_only = []
    for g in groups:
        rx = re.compile(g['match'])
        hs = sorted(n for n in names if rx.fullmatch(n))
        if not hs:
            o = Obl('%s.K.%s' % (prop, g['name']), 'kani', 'kani/cbmc', [prop])
            o.status = 'undecided'
            o.detail = 'vacuity guard: no harness matches %s' % g['match']
            obls.append(o)
        meta['groups'].append({'name': g['name'], 'harnesses': len(hs), 'bound': g.get('bound', 'none'), 'what': g.get('what', '')})
        for h in hs:
            if only and only not in h:
                continue
            if g.get('native_only'):
                native_only.append((h, g))
            else:
                todo.append((h, g))
    # one shared build, then one cbmc job per harness
    env = dict(os.environ, CARGO_NET_OFFLINE='true')
    t0 = time.time()
    if todo:
        b = subprocess.run(['cargo', 'kani', '-Z', 'stubbing', '--only-codegen'], cwd=prepared, capture_output=True, text=True, env=env)
    else:
        b = subprocess.CompletedProcess([], 0, '', '')
    meta['codegen_s'] = round(time.time() - t0, 1)
    if b.returncode != 0:
        o = Obl('%s.K.build' % prop, 'kani', 'kani/cbmc', [prop])
        o.status = 'undecided'
        o.detail = 'prepared crate does not compile under Kani: ' + (b.stdout + b.stderr)[-2500:]
        return obls + [o], meta
    timeout = int(os.environ.get('VERIF_KANI_TIMEOUT', '480'))
    # heavy groups (`heavy = true`: several GB per job) run after the light ones, two at a time, with a larger memory cap
    light = [(h, g) for h, g in todo if not g.get('heavy')]
    heavy = [(h, g) for h, g in todo if g.get('heavy')]
    results = []
    for batch, workers in ((light, NJOBS), (heavy, int(os.environ.get('VERIF_KANI_HEAVY_JOBS', '2')))):
        if not batch:
            continue
        with cf.ThreadPoolExecutor(max_workers=workers) as ex:
            futs = {ex.submit(run_one, prepared, h, int(g.get('timeout', timeout)),
                              () if g.get('no_restrict_vtable') else ('-Z', 'restrict-vtable'), g.get('mem_gb')): (h, g) for h, g in batch}
            for fu in cf.as_completed(futs):
                results.append((futs[fu], fu.result()))
    if True:
        for (h, g), r in results:
            o = Obl('%s.K.%s' % (prop, h), 'kani', 'kani/cbmc', g['props'], unit=g['name'], fn=h, bound=g.get('bound'), where=names.get(h))
            o.status, o.detail, o.seconds = r['status'], r['detail'], r['seconds']
            if o.status == 'failed':
                routes = registry().get('routes', {}).get(prop)
                if routes:
                    msgs = [m.strip() for m in o.detail[len('Kani: '):].split(' | ')]
                    mine = [m for m in msgs if any(re.search(rx, m) for rx in routes)]
                    if not mine:
                        o.status = 'undecided'
                        o.detail = 'harness failed only on clauses of other properties (may mask this property\'s clauses): ' + o.detail
                    else:
                        o.detail = 'Kani: ' + ' | '.join(mine)
            o.extra['kani_out'] = r.get('out', '')
            o.extra['prepared'] = prepared
            obls.append(o)
            meta['harnesses'] += 1
    # thorough tier: the same harnesses are also run NATIVELY against the real crate (real std::sync::RwLock/Arc, real HashMap, no
    # facade) with concrete payloads: a cross-check that the facade does not misrepresent the real types (bounded, not proof)
    if (tier == 'thorough' or native_only) and not only:
        import nativereplay
        t1 = time.time()
        nd = os.path.join(scratch, 'r')
        try:
            nativereplay.prepare(repo, nd)
            env2 = dict(os.environ, CARGO_NET_OFFLINE='true', RUSTFLAGS='-Awarnings')
            p = subprocess.run(['cargo', 'test', '--offline', '--lib', '--no-fail-fast', '--', '--test-threads', '4', 'verif_k::'], cwd=nd,
                               capture_output=True, text=True, timeout=1200, env=env2)
            out = p.stdout + p.stderr
            res = dict(re.findall(r'test \S*verif_k::(k_[a-z0-9_]+) \.\.\. (\w+)', out))
            wanted = set(h for h, g in native_only) | (set(h for h, g in todo) if tier == 'thorough' else set())
            n_ok = 0
            for h in sorted(wanted):
                o = Obl('%s.N.%s' % (prop, h), 'native', 'cargo test (real std::sync, real HashMap)', [prop], fn=h,
                        bound='concrete payloads 7,8,9..; one run', where=names.get(h))
                st = res.get(h)
                if st == 'ok':
                    o.status = 'discharged'; n_ok += 1
                elif st == 'FAILED':
                    m = re.search(r"%s' \([^)]*\) panicked at [^\n]*\n([^\n]*)" % re.escape(h), out)
                    msg = m.group(1).strip() if m else 'native assertion failed'
                    routes = registry().get('routes', {}).get(prop)
                    o.status = 'failed' if (not routes or any(re.search(rx, msg) for rx in routes)) else 'undecided'
                    o.detail = 'native run against the real crate fails: ' + msg
                else:
                    o.status = 'undecided'; o.detail = 'native run: harness not found in the test output'
                o.seconds = 0.0
                obls.append(o)
            meta['native_cross_check'] = {'harnesses': len(wanted), 'passed': n_ok, 'wall_s': round(time.time() - t1, 1)}
        except Exception as e:
            meta['native_cross_check'] = {'error': repr(e)}
    obls.sort(key=lambda o: o.id)
    return obls, meta
