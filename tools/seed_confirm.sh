#!/bin/bash
# usage: seed_confirm.sh <seed-id> <worktree> <patch.diff> <demo.rs> <property> "<needs>"
# confirms a seeded change in a scratch worktree at /repo's HEAD (demo passes without / fails with the change; the unedited suite
# passes with it) and stores patch + demo + confirmation under /verif/seeded/<seed-id>/.  Detection is recorded separately
# (tools/seed_rerun.sh applies the kept patch to /repo, runs ./check, undoes it).
set -u
id=$1; wt=$2; patch=$3; demo=$4; prop=$5; needs=${6:-}
out=/verif/seeded/$id; mkdir -p $out
cd $wt || exit 2
git checkout -q -- src; rm -rf tests; mkdir -p tests; cp $demo tests/$(basename $demo)
t=$(basename $demo .rs)
base_demo=$(timeout 300 cargo test --offline --test $t 2>&1 | grep -E "^test result" | head -1)
git apply $patch || { echo "$id: patch does not apply"; exit 2; }
mut_demo=$(timeout 300 cargo test --offline --test $t 2>&1 | grep -E "^test result|timed out" | head -1)
[ -z "$mut_demo" ] && mut_demo="no test result (timeout 300 s: hang)"
rm -rf tests
mut_suite=$(timeout 600 cargo test --offline 2>&1 | grep -E "^test result" | tr '\n' ' ')
git checkout -q -- src
cp $patch $out/patch.diff; cp $demo $out/$(basename $demo)
python3 - "$id" "$prop" "$needs" "$base_demo" "$mut_demo" "$mut_suite" <<'PY'
import json,sys,os
id,prop,needs,base_demo,mut_demo,mut_suite=sys.argv[1:7]
p='/verif/seeded/%s/meta.json' % id
d=json.load(open(p)) if os.path.exists(p) else {}
d.update({'seed': id, 'breaks_property': prop, 'needs_to_manifest': needs,
  'confirmed': {'demo_on_unchanged_tree': base_demo, 'demo_with_change': mut_demo, 'suite_with_change': mut_suite}})
json.dump(d, open(p,'w'), indent=1)
print(id, '|', base_demo[:40], '|', mut_demo[:45], '|', mut_suite[:60])
PY
