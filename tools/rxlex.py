"""Minimal Rust lexer + token-tree builder used by rxprep.

Only what the extractor needs: identifiers, lifetimes, literals (strings, raw strings, chars,
numbers), punctuation (single characters; multi-character operators are matched as sequences
by the pattern helpers), comments are skipped.  Every token keeps its character span in the
source so that extracted text is a *slice of the original file* (plus span replacements) and
never a re-print.
"""
import re
from dataclasses import dataclass, field
from typing import List, Optional

OPEN = {'(': ')', '[': ']', '{': '}'}
CLOSE = {')', ']', '}'}


class LexError(Exception):
    pass


@dataclass
class Tok:
    kind: str          # ident | life | lit | punct | group
    text: str          # token text ('(' '[' '{' for groups)
    start: int         # char offset of first char
    end: int           # char offset one past last char (for groups: past the closing delimiter)
    kids: Optional[list] = None   # for groups: list of Tok

    def is_p(self, ch):
        return self.kind == 'punct' and self.text == ch

    def is_id(self, name=None):
        return self.kind == 'ident' and (name is None or self.text == name)

    def is_group(self, d=None):
        return self.kind == 'group' and (d is None or self.text == d)


_ident_re = re.compile(r'[A-Za-z_][A-Za-z0-9_]*')
_num_re = re.compile(r'[0-9][0-9A-Za-z_]*(\.[0-9][0-9A-Za-z_]*)?')


def lex(src: str) -> List[Tok]:
    """flat token list (delimiters as punct)"""
    i, n = 0, len(src)
    out = []
    while i < n:
        c = src[i]
        if c.isspace():
            i += 1
            continue
        if src.startswith('//', i):
            j = src.find('\n', i)
            i = n if j < 0 else j
            continue
        if src.startswith('/*', i):
            depth, j = 1, i + 2
            while j < n and depth:
                if src.startswith('/*', j):
                    depth += 1; j += 2
                elif src.startswith('*/', j):
                    depth -= 1; j += 2
                else:
                    j += 1
            i = j
            continue
        # raw strings r"..", r#".."#, br".."
        m = re.match(r'b?r(#*)"', src[i:])
        if m:
            hashes = m.group(1)
            j = src.find('"' + hashes, i + m.end())
            if j < 0:
                raise LexError('unterminated raw string')
            j += 1 + len(hashes)
            out.append(Tok('lit', src[i:j], i, j)); i = j
            continue
        if c == '"' or (c == 'b' and i + 1 < n and src[i + 1] == '"'):
            j = i + (2 if c == 'b' else 1)
            while j < n and src[j] != '"':
                j += 2 if src[j] == '\\' else 1
            j += 1
            out.append(Tok('lit', src[i:j], i, j)); i = j
            continue
        if c == "'":
            # char literal or lifetime
            m = re.match(r"'(\\.[^']*|[^'\\])'", src[i:])
            if m:
                j = i + m.end()
                out.append(Tok('lit', src[i:j], i, j)); i = j
                continue
            m = _ident_re.match(src, i + 1)
            if m:
                j = m.end()
                out.append(Tok('life', src[i:j], i, j)); i = j
                continue
            raise LexError('stray quote at %d' % i)
        m = _ident_re.match(src, i)
        if m:
            j = m.end()
            out.append(Tok('ident', src[i:j], i, j)); i = j
            continue
        if c.isdigit():
            m = _num_re.match(src, i)
            j = m.end()
            # do not swallow a range `0..n` or method call `0.max()`
            t = src[i:j]
            if '.' in t:
                k = t.index('.')
                if not t[k + 1:k + 2].isdigit():
                    j = i + k
            out.append(Tok('lit', src[i:j], i, j)); i = j
            continue
        out.append(Tok('punct', c, i, i + 1)); i += 1
    return out


def tree(src: str) -> List[Tok]:
    flat = lex(src)
    stack = [[]]
    opens = []
    for t in flat:
        if t.kind == 'punct' and t.text in OPEN:
            g = Tok('group', t.text, t.start, -1, [])
            stack[-1].append(g)
            stack.append(g.kids)
            opens.append(g)
        elif t.kind == 'punct' and t.text in CLOSE:
            if not opens or OPEN[opens[-1].text] != t.text:
                raise LexError('unbalanced %s at %d' % (t.text, t.start))
            g = opens.pop()
            g.end = t.end
            stack.pop()
        else:
            stack[-1].append(t)
    if opens:
        raise LexError('unclosed delimiter at %d' % opens[-1].start)
    return stack[0]


def walk(toks):
    """pre-order over all tokens, yielding (parent_list, index, tok)"""
    for i, t in enumerate(toks):
        yield toks, i, t
        if t.kind == 'group':
            yield from walk(t.kids)


def split_commas(kids):
    """split a group's children at top-level commas -> list of token lists (closure `|a, b|` params are
    protected: commas between the two bars of a closure head are not split points)"""
    parts, cur = [], []
    in_bars = False
    i = 0
    while i < len(kids):
        t = kids[i]
        if t.is_p('|'):
            # closure head starts at `|` when previous token is not an expression end
            prev = cur[-1] if cur else None
            starts = prev is None or prev.is_id('move') or (prev.kind == 'punct' and prev.text in '=,(')
            if in_bars:
                in_bars = False
            elif starts:
                # `||` (no params) is two consecutive bars
                in_bars = True
            cur.append(t)
        elif t.is_p(',') and not in_bars:
            parts.append(cur); cur = []
        else:
            cur.append(t)
        i += 1
    if cur:
        parts.append(cur)
    return parts


def span_of(toks):
    return toks[0].start, toks[-1].end


def match_seq(toks, i, pat):
    """pat: list of strings; 'ident' matches any identifier, '()' an empty paren group, '(…)' any paren group,
    otherwise literal token text.  returns index after match or -1"""
    j = i
    for p in pat:
        if j >= len(toks):
            return -1
        t = toks[j]
        if p == 'ident':
            if t.kind != 'ident':
                return -1
        elif p == '()':
            if not (t.is_group('(') and not t.kids):
                return -1
        elif p == '(…)':
            if not t.is_group('('):
                return -1
        elif p == '{…}':
            if not t.is_group('{'):
                return -1
        else:
            if t.kind == 'group' or t.text != p:
                return -1
        j += 1
    return j
