"""Witness search for failed obligations (DESIGN 3.5).  It never decides anything: the failed obligation is the violation; this
module only tries to attach a concrete failing input that reproduces against the REAL crate.

* Verus obligations of single-source operator units: the real operator is run natively on every script over {0,1,2} of length <= 4
  x {complete, error, silent} x parameters 0..3 and compared with an executable transcription of the unit's definition (REFS below);
  the first disagreement becomes a stand-alone failing test (replay file `witness`).
* Kani obligations: the failed harness is re-run natively against the real crate (tools/nativereplay.py).
"""
import itertools
import json
import os
import re
import shutil
import subprocess
import sys

VERIF = os.path.dirname(os.path.dirname(os.path.abspath(__file__)))

EVEN = lambda x: x % 2 == 0


def fin(items, end):
    return items + ([('C',)] if end == 'C' else [('E',)] if end == 'E' else [])


def N(xs):
    return [('N', x) for x in xs]


def r_take(xs, end, p):
    if p == 0:
        return [('C',)]   # take(0) = empty: completes at once, whatever the source does
    if len(xs) >= p:
        return N(xs[:p]) + [('C',)]
    return fin(N(xs), end)


def r_take_while(xs, end, p):
    out = []
    for x in xs:
        if EVEN(x):
            out.append(('N', x))
        else:
            return out + [('C',)]
    return fin(out, end)


def r_skip_while(xs, end, p):
    k = next((i for i, x in enumerate(xs) if not EVEN(x)), len(xs))
    return fin(N(xs[k:]), end)


def r_distinct(xs, end, p):
    out = [x for i, x in enumerate(xs) if i == 0 or xs[i - 1] != x]
    return fin(N(out), end)


def fold(xs):
    acc = xs[0]
    for x in xs[1:]:
        acc = acc * 3 + x
    return acc


def r_scan(xs, end, p):
    return fin(N([fold(xs[:i + 1]) for i in range(len(xs))]), end)


def on_complete(value_fn):
    def f(xs, end, p):
        if end == 'C':
            v = value_fn(xs, p)
            return (N([v]) if v is not None else []) + [('C',)]
        return fin([], end)
    return f


def r_contains(xs, end, p):
    if p in xs:
        return [('N', True), ('C',)]
    if end in ('C', 'E'):
        return [('N', False), ('C',)]
    return []


def r_all(xs, end, p):
    if any(not EVEN(x) for x in xs):
        return [('N', False), ('C',)]
    if end == 'C':
        return [('N', True), ('C',)]
    return fin([], end)


def r_default_if_empty(xs, end, p):
    if end == 'C' and not xs:
        return [('N', 99), ('C',)]
    return fin(N(xs), end)


def r_take_last(xs, end, p):
    if end == 'C':
        return N(xs[len(xs) - p:] if p <= len(xs) else xs) + [('C',)] if p > 0 else [('C',)]
    return fin([], end)


def r_first(xs, end, p):
    return N(xs[:1]) + [('C',)] if xs else fin([], end)


def r_last(xs, end, p):
    if end == 'C':
        return N(xs[-1:]) + [('C',)]
    return fin([], end)


# unit -> (rust expression over `src`, parameter values, reference)
REFS = {
    'take': ('src.take(P)', [0, 1, 2, 3], r_take),
    'skip': ('src.skip(P)', [0, 1, 2, 3], lambda xs, end, p: fin(N(xs[p:]), end)),
    'skip_last': ('src.skip_last(P)', [0, 1, 2, 3], lambda xs, end, p: fin(N(xs[:max(0, len(xs) - p)]), end)),
    'take_last': ('src.take_last(P)', [0, 1, 2, 3], r_take_last),
    'filter': ('src.filter(|x| x % 2 == 0)', [0], lambda xs, end, p: fin(N([x for x in xs if EVEN(x)]), end)),
    'map': ('src.map(|x| x + 10)', [0], lambda xs, end, p: fin(N([x + 10 for x in xs]), end)),
    'take_while': ('src.take_while(|x| x % 2 == 0)', [0], r_take_while),
    'skip_while': ('src.skip_while(|x| x % 2 == 0)', [0], r_skip_while),
    'distinct_until_changed': ('src.distinct_until_changed()', [0], r_distinct),
    'ignore_elements': ('src.ignore_elements()', [0], lambda xs, end, p: fin([], end)),
    'scan': ('src.scan(|a, b| a * 3 + b)', [0], r_scan),
    'reduce': ('src.reduce(|a, b| a * 3 + b)', [0], on_complete(lambda xs, p: fold(xs) if xs else None)),
    'count': ('src.count().map(|x| x as i64)', [0], on_complete(lambda xs, p: len(xs))),
    'sum': ('src.sum()', [0], on_complete(lambda xs, p: sum(xs) if xs else None)),
    'min': ('src.min()', [0], on_complete(lambda xs, p: min(xs) if xs else None)),
    'max': ('src.max()', [0], on_complete(lambda xs, p: max(xs) if xs else None)),
    'contains': ('src.contains(P as i64).map(|b| b as i64)', [0, 1, 2], lambda xs, end, p: [(e[0], int(e[1])) if e[0] == 'N' else e for e in r_contains(xs, end, p)]),
    'all': ('src.all(|x| x % 2 == 0).map(|b| b as i64)', [0], lambda xs, end, p: [(e[0], int(e[1])) if e[0] == 'N' else e for e in r_all(xs, end, p)]),
    'default_if_empty': ('src.default_if_empty(99)', [0], r_default_if_empty),
    'first': ('src.first()', [0], r_first),
    'last': ('src.last()', [0], r_last),
    'tap': ('src.tap(|_| {}, |_| {}, || {})', [0], lambda xs, end, p: fin(N(xs), end)),
}

DRIVER = '''
use another_rxrust::prelude::*;
use std::sync::{Arc, Mutex};

fn run(xs: Vec<i64>, end: u8, p: usize) -> String {
  let log = Arc::new(Mutex::new(Vec::<String>::new()));
  let (l1, l2, l3) = (log.clone(), log.clone(), log.clone());
  let items = xs.clone();
  let src: Observable<'static, i64> = Observable::create(move |s| {
    for x in items.iter() { s.next(*x); }
    match end { 0 => s.complete(), 1 => s.error(RxError::from_error("E")), _ => {} }
  });
  #[allow(non_snake_case, unused_variables)]
  let P = p;
  let o = EXPR;
  o.subscribe(move |x| l1.lock().unwrap().push(format!("N{}", x)), move |_| l2.lock().unwrap().push("E".to_string()), move || l3.lock().unwrap().push("C".to_string()));
  let v = log.lock().unwrap().join(",");
  v
}

#[test]
fn sweep() {
  let params: Vec<usize> = vec![PARAMS];
  for p in params {
    for len in 0..=4usize {
      let mut idx = vec![0i64; len];
      loop {
        for end in 0..3u8 {
          println!("ROW|{}|{:?}|{}|{}", p, idx, end, run(idx.clone(), end, p));
        }
        let mut k = 0;
        while k < len { idx[k] += 1; if idx[k] < 3 { break; } idx[k] = 0; k += 1; }
        if k == len { break; }
      }
    }
  }
}
'''


def _fmt(evs):
    return ','.join('N%d' % e[1] if e[0] == 'N' else e[0] for e in evs)


def verus_witness(unit, repo, scratch):
    if unit not in REFS:
        return None
    expr, params, ref = REFS[unit]
    d = os.path.join(scratch, 'w')
    if os.path.exists(d):
        shutil.rmtree(d)
    shutil.copytree(repo, d, ignore=shutil.ignore_patterns('target', '.git'))
    os.makedirs(os.path.join(d, 'tests'), exist_ok=True)
    src = DRIVER.replace('EXPR', expr).replace('PARAMS', ', '.join(str(p) for p in params))
    open(os.path.join(d, 'tests', 'verif_sweep.rs'), 'w').write(src)
    env = dict(os.environ, CARGO_NET_OFFLINE='true', RUSTFLAGS='-Awarnings')
    try:
        p = subprocess.run(['cargo', 'test', '--offline', '--test', 'verif_sweep', '--', '--nocapture', '--test-threads', '1'],
                           cwd=d, capture_output=True, text=True, timeout=600, env=env)
    except subprocess.TimeoutExpired:
        return {'witness': None, 'witness_search': 'native sweep timed out (the operator may not terminate on some input)'}
    rows = 0
    for line in p.stdout.split('\n'):
        if 'ROW|' not in line:
            continue
        line = line[line.index('ROW|'):]      # the first row shares its line with the harness' `test sweep ... `
        _, ps, xs, end, got = line.split('|', 4)
        xs = json.loads(xs)
        endc = 'CES'[int(end)]
        want = ref(xs, endc, int(ps))
        rows += 1
        if want is None:
            continue
        if _fmt(want) != got.strip():
            test = ('use another_rxrust::prelude::*;\n// witness found by the bounded native sweep: operator `%s`, parameter %s, source items %s, ending %s\n'
                    '// delivered: [%s]   definition: [%s]\n' % (unit, ps, xs, {'C': 'complete', 'E': 'error', 'S': 'silent'}[endc], got.strip(), _fmt(want)))
            return {'witness': {'operator': unit, 'expression': expr.replace('P', ps), 'source_items': xs, 'source_ending': endc,
                                'delivered': got.strip(), 'definition_says': _fmt(want)},
                    'witness_search': 'native sweep of the real operator: %d rows until the first disagreement' % rows,
                    'witness_test_header': test}
    return {'witness': None, 'witness_search': 'native sweep of the real operator over %d scripts (items {0,1,2}, length <= 4, 3 endings, parameters %s) found no disagreement with the executable definition' % (rows, params)}


def find_witness(obl, repo, scratch):
    try:
        if obl.extra.get('sweep'):
            return obl.extra['sweep']
        if obl.engine == 'verus' and obl.unit:
            return verus_witness(obl.unit, repo, scratch)
        if obl.engine == 'native' and obl.fn:
            # the obligation itself is a run of the harness against the real crate: its failing assertion is the witness
            return {'witness': {'native_replay_of_harness': obl.fn, 'result': obl.detail}}
        if obl.engine == 'kani' and obl.fn:
            import nativereplay
            r = nativereplay.run(repo, scratch, obl.fn)
            if r['reproduced']:
                return {'witness': {'native_replay_of_harness': obl.fn, 'result': r['how']}, 'native_output': r['output'][-2500:],
                        'kani_output': obl.extra.get('kani_out', '')[-2500:]}
            return {'witness': None, 'native_replay': r['how'], 'kani_output': obl.extra.get('kani_out', '')[-2500:]}
    except Exception as e:  # the search must never turn a violation into a crash
        return {'witness': None, 'witness_search': 'search failed: %r' % e}
    return None


def rerun(rec, repo):
    print('replay of obligation %s' % rec.get('failed_obligation'))
    w = rec.get('witness')
    if not w:
        print('no concrete input recorded (no-failing-input-found); re-run ./check %s to re-verify the obligation' % rec.get('property'))
        return 0
    import tempfile
    scratch = tempfile.mkdtemp(prefix='rxreplay-')
    try:
        if 'native_replay_of_harness' in w:
            import nativereplay
            r = nativereplay.run(repo, scratch, w['native_replay_of_harness'])
            print(r['how'])
            return 1 if r['reproduced'] else 0
        r = verus_witness(w['operator'], repo, scratch)
        print(json.dumps(r, indent=1)[:2000])
        return 1 if r and r.get('witness') else 0
    finally:
        shutil.rmtree(scratch, ignore_errors=True)
