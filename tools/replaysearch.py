"""witness search for failed Verus obligations (DESIGN 3.5): never decides anything, only tries to produce a runnable failing input"""


def find_witness(obl, repo, scratch):
    return None


def rerun(rec, repo):
    print('replay: obligation %s - re-run `./check %s` to re-verify; no concrete input recorded' % (rec.get('failed_obligation'), rec.get('property')))
    return 0
