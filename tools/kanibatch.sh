#!/bin/sh
# dev helper: run harnesses matching $2 of prepared crate $1 each as a separate cbmc job with a per-harness timeout ($3, default 300s), NJOBS parallel
dir=$1; pat=$2; to=${3:-300}; nj=${NJOBS:-16}
cd $dir || exit 2
cargo kani -Z stubbing --only-codegen > $dir/cg.txt 2>&1 || { tail -30 $dir/cg.txt; exit 2; }
grep -rhoE "\bk_[a-z0-9_]+" src | grep -E "$pat" | sort -u > $dir/harnesses.txt
mkdir -p $dir/res
cat $dir/harnesses.txt | xargs -P $nj -I{} sh -c "/usr/bin/time -f '%e s %M KB' timeout $to cargo kani -Z stubbing -Z unstable-options -Z restrict-vtable --no-memory-safety-checks --no-overflow-checks --harness {} > $dir/res/{}.txt 2>&1"
for h in $(cat $dir/harnesses.txt); do printf "%-55s %s\n" $h "$(grep -E 'VERIFICATION:-|Failed Checks|s [0-9]+ KB' $dir/res/$h.txt | tr '\n' ' ' | cut -c1-200)"; done
