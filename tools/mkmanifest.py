#!/usr/bin/env python3
"""writes MANIFEST.json from tools/plan.py + the table below (keeps the manifest consistent with what is built)"""
import json, os, sys
VERIF = os.path.dirname(os.path.dirname(os.path.abspath(__file__)))
sys.path.insert(0, os.path.join(VERIF, 'tools'))
import plan

NA = {
 'C07': 'deadlock/livelock freedom over thread interleavings is a schedule property; Kani has no threads and Verus would need the code rewritten with its permission types (DESIGN 4.7)',
 'C08': 'quantifies over interleavings of post/abort with the worker thread and over liveness (no lost wake-up, termination); outside contract-based deductive verification of this code (DESIGN 4.8)',
 'C09': 'cross-thread hand-off and thread affinity through the scheduler queue (DESIGN 4.9)',
 'C11': 'item conservation under racing producer threads: schedule property (DESIGN 4.11)',
 'C12': 'subjects used from several threads: schedule property (DESIGN 4.12)',
 'C15': 'thread lifetime / termination of worker threads (DESIGN 4.15)',
 'C16': 'wall-clock behaviour of timer threads (DESIGN 4.16)',
 'C18': 'lost-wake-up freedom between poll and a source on another thread (DESIGN 4.18)',
 'C19': 'mutual exclusion of terminal and next callbacks across racing threads (DESIGN 4.19)',
}
PENDING = 'claimed in DESIGN.md; machinery not yet built in this commit'

def main():
    props = [json.loads(l) for l in open(os.path.join(VERIF, 'properties.jsonl'))]
    checks, na = [], []
    for p in props:
        pid = p['id']
        pl = plan.PLAN.get(pid)
        if pl is None:
            na.append({'property_id': pid, 'reason': NA.get(pid, PENDING)})
            continue
        checks.append({
            'property_id': pid,
            'quick_cmd': './check %s --tier quick' % pid,
            'thorough_cmd': './check %s --tier thorough' % pid,
            'evidence_file': 'evidence/%s.json' % pid,
            'replay_cmd_template': './check %s --replay {path}' % pid,
            'engine': '+'.join(pl['engines']),
            'level_claimed': {'category': pl.get('level', 'proof'), 'text': pl.get('level_text', ''), 'design_ref': pl.get('design_ref', 'DESIGN.md section 4')},
            'level_note': pl.get('level_note', ''),
            'technique': pl.get('technique', 'contract-based deductive verification'),
        })
    m = {
        'version': 1,
        'setup_cmd': './setup.sh',
        'hooks': {
            'guard': 'cfg(kani) (set only by the Kani compiler; harness modules are injected into a scratch copy, /repo carries no hooks)',
            'enable': 'tools/kaniprep.py copies /repo to a scratch directory, redirects std::sync::{RwLock,Mutex,Condvar}/HashMap imports to the sequential facade and appends #[cfg(kani)] harness modules; Verus units are extracted from /repo by tools/rxprep.py on every run',
            'baseline_off_cmd': 'cd /repo && cargo test --workspace --no-fail-fast --offline',
            'source_commits': [],
            'add_only': True,
        },
        'engines': [
            {'name': 'verus-units', 'path': 'tools/vgen.py', 'serves_properties': sorted(k for k, v in plan.PLAN.items() if 'verus_units' in v['engines']), 'kind_free_text': 'Verus on handler bodies extracted mechanically from /repo (contracts/*.toml)'},
            {'name': 'verus-lemmas', 'path': 'lemmas/', 'serves_properties': sorted(k for k, v in plan.PLAN.items() if 'verus_lemmas' in v['engines']), 'kind_free_text': 'Verus history/composition lemmas over the contract models'},
            {'name': 'kani-refine', 'path': 'kani/', 'serves_properties': sorted(k for k, v in plan.PLAN.items() if 'kani' in v['engines']), 'kind_free_text': 'Kani contracts on the real Observer/Subscription/StreamController/Subject code, sequential lock facade'},
            {'name': 'syntactic-frame', 'path': 'tools/syntactic.py', 'serves_properties': sorted(k for k, v in plan.PLAN.items() if 'syntactic' in v['engines']), 'kind_free_text': 'frame/encapsulation obligations decided on the token tree'},
        ],
        'checks': checks,
        'not_applicable': na,
        'notes': 'exit 2 = undecided (tool limit / lost anchor), never an alarm. known findings: known_findings.json',
    }
    json.dump(m, open(os.path.join(VERIF, 'MANIFEST.json'), 'w'), indent=1)

if __name__ == '__main__':
    main()
