#!/bin/bash
# usage: seed_keep.sh <seed-id> <worktree> <patch.diff> <demo.rs> <property> "<needs>"
# confirms the seeded change in the scratch worktree (suite passes with it; demo fails with it, passes without), stores it under
# /verif/seeded/<seed-id>/, then runs ./check <property> on /repo with the patch applied and records what was reported.
set -u
id=$1; wt=$2; patch=$3; demo=$4; prop=$5; needs=${6:-}
out=/verif/seeded/$id; mkdir -p $out
cd $wt || exit 2
git checkout -q -- src; rm -rf tests; mkdir -p tests; cp $demo tests/$(basename $demo)
t=$(basename $demo .rs)
base_demo=$(cargo test --offline --test $t 2>&1 | grep -E "^test result" | head -1)
git apply $patch || { echo "patch does not apply"; exit 2; }
mut_demo=$(cargo test --offline --test $t 2>&1 | grep -E "^test result" | head -1)
rm -rf tests
mut_suite=$(timeout 300 cargo test --offline 2>&1 | grep -E "^test result" | tr '\n' ' ')
git checkout -q -- src
cp $patch $out/patch.diff; cp $demo $out/$(basename $demo)
cd /repo && git apply $out/patch.diff || { echo "patch does not apply to /repo"; exit 2; }
cd /verif && res=$(VERIF_NO_EVIDENCE=1 timeout 3000 ./check $prop --tier quick 2>&1 | grep -E "VIOLATION|UNDECIDED|tier=" | cut -c1-400)
rc=$?
git -C /repo checkout -- . 
python3 - "$id" "$prop" "$needs" "$base_demo" "$mut_demo" "$mut_suite" "$res" <<'PY'
import json,sys
id,prop,needs,base_demo,mut_demo,mut_suite,res=sys.argv[1:8]
detected = 'VIOLATION' in res
json.dump({'seed': id, 'breaks_property': prop, 'needs_to_manifest': needs,
  'confirmed': {'demo_on_unchanged_tree': base_demo, 'demo_with_change': mut_demo, 'suite_with_change': mut_suite},
  'ran': './check %s --tier quick with the patch applied to /repo (git apply; undone afterwards)' % prop,
  'check_output': res.split('\n'), 'detected': detected}, open('/verif/seeded/%s/meta.json' % id,'w'), indent=1)
print(id, 'detected' if detected else 'MISSED', '|', base_demo, '|', mut_demo, '|', mut_suite)
PY
