#!/bin/sh
# dev helper: generate + verify one unit, show verus diagnostics
op=$1; repo=${2:-/tmp/repo-dev}
mkdir -p /tmp/vx
python3 /verif/tools/vgen.py /verif/contracts/$op.toml $repo /tmp/vx > /tmp/vx/$op.json || { tail -3 /tmp/vx/$op.json; exit 2; }
python3 -c "
import json;d=json.load(open('/tmp/vx/$op.json'));
print('skeleton problems:',d['skeleton_problems']) if d['skeleton_problems'] else None"
cd /tmp/vx && verus $op.rs --multiple-errors 2 2>&1 | grep -v '^$' | head -${3:-60}
verus ${op}_twins.rs 2>&1 | grep -E "verification results"
