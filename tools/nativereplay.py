"""nativereplay: re-run a failed Kani harness natively against the REAL crate (real std::sync::RwLock, real HashMap).

The scratch copy gets the same harness modules as the Kani build (P4) but NOT the lock/map facade (no P1/P2).  Attributes are
mapped textually:  #[kani::proof] -> #[test],  #[kani::unwind(n)] -> nothing,  kani::any() -> verif_kani::replay_any(),
kani::cover!(..) -> nothing,  cfg(kani) -> cfg(test).  Symbolic payloads become the fixed sequence 7, 8, 9, ... (the harness
shapes are concrete, so any payload exhibits a failing clause that does not depend on the payload; otherwise the replay reports
`not reproduced` and the check stays undecided for the replay, the violation itself stands on the failed obligation).
A self-deadlock in the real code shows up as a hang: timeout => confirmed `blocks forever`.
"""
import os
import re
import shutil
import subprocess
import sys

VERIF = os.path.dirname(os.path.dirname(os.path.abspath(__file__)))
sys.path.insert(0, os.path.join(VERIF, 'tools'))
import kaniprep  # noqa: E402

SHIM = '''
// ---- native replay shim ----
static REPLAY_COUNTER: std::sync::atomic::AtomicU32 = std::sync::atomic::AtomicU32::new(7);
pub trait ReplayAny { fn from_u32(v: u32) -> Self; }
impl ReplayAny for u8 { fn from_u32(v: u32) -> u8 { v as u8 } }
impl ReplayAny for u16 { fn from_u32(v: u32) -> u16 { v as u16 } }
impl ReplayAny for u32 { fn from_u32(v: u32) -> u32 { v } }
impl ReplayAny for bool { fn from_u32(v: u32) -> bool { v % 2 == 1 } }
pub fn replay_any<T: ReplayAny>() -> T {
  // VERIF_REPLAY_OFFSET shifts the sequence, so that a second run takes the other branch of a nondeterministic bool
  let off: u32 = std::env::var("VERIF_REPLAY_OFFSET").ok().and_then(|v| v.parse().ok()).unwrap_or(0);
  T::from_u32(off + REPLAY_COUNTER.fetch_add(1, std::sync::atomic::Ordering::SeqCst))
}
'''


def to_native(txt):
    txt = re.sub(r'#\[kani::proof\]', '#[test]', txt)
    txt = re.sub(r'#\[kani::unwind\(\d+\)\]', '', txt)
    txt = re.sub(r'kani::any\(\)', 'crate::verif_kani::replay_any()', txt)
    txt = re.sub(r'kani::cover!\([^;]*\);', '', txt)
    return txt


def prepare(repo, dst):
    if os.path.exists(dst):
        shutil.rmtree(dst)
    os.makedirs(dst)
    shutil.copytree(os.path.join(repo, 'src'), os.path.join(dst, 'src'))
    for f in ('Cargo.toml', 'Cargo.lock', 'README.md'):
        if os.path.exists(os.path.join(repo, f)):
            shutil.copy(os.path.join(repo, f), os.path.join(dst, f))
    shutil.copy(os.path.join(VERIF, 'facade', 'verif_sync.rs'), os.path.join(dst, 'src', 'verif_sync.rs'))
    lib = open(os.path.join(dst, 'src', 'lib.rs')).read()
    lib += '\n#[cfg(test)]\n#[allow(dead_code)]\npub mod verif_sync;\n#[cfg(test)]\npub mod verif_kani;\n'
    open(os.path.join(dst, 'src', 'lib.rs'), 'w').write(lib)
    common = to_native(open(os.path.join(VERIF, 'kani', 'common.rs')).read()) + SHIM
    open(os.path.join(dst, 'src', 'verif_kani.rs'), 'w').write(common)
    for h, target in kaniprep.INJECT.items():
        hp = os.path.join(VERIF, 'kani', h)
        tp = os.path.join(dst, target)
        if not os.path.exists(hp) or not os.path.exists(tp):
            continue
        body = to_native(open(hp).read())
        with open(tp, 'a') as f:
            f.write('\n#[cfg(test)]\npub(crate) mod verif_k {\n  #![allow(unused_imports, unused_variables, dead_code, unused_macros)]\n  use super::*;\n  use crate::verif_kani::*;\n%s\n}\n' % body)
    return dst


def run(repo, scratch, harness, timeout=120):
    dst = os.path.join(scratch, 'r')
    prepare(repo, dst)
    r = None
    for off in ('0', '1'):   # concrete payloads 7,8,9.. then 8,9,10..: the second run flips every nondeterministic bool
        r = _run_once(dst, harness, timeout, off)
        if r['reproduced'] or r['how'] == 'native replay did not build':
            break
    return r


def _run_once(dst, harness, timeout, off):
    env = dict(os.environ, CARGO_NET_OFFLINE='true', RUSTFLAGS='-Awarnings', VERIF_REPLAY_OFFSET=off)
    try:
        p = subprocess.run(['cargo', 'test', '--offline', '--lib', '--', '--exact', '--test-threads', '1', '--nocapture', harness_path(dst, harness)],
                           cwd=dst, capture_output=True, text=True, timeout=timeout, env=env)
    except subprocess.TimeoutExpired:
        return {'reproduced': True, 'how': 'the native run of the harness against the real crate did not finish within %ds (blocks forever)' % timeout, 'output': ''}
    out = (p.stdout + p.stderr)
    if ' 0 passed' in out and '1 failed' in out or 'panicked at' in out:
        m = re.search(r"panicked at [^\n]*\n([^\n]*)", out)
        return {'reproduced': True, 'how': 'native run against the real crate (real std::sync, real HashMap) fails: %s' % (m.group(1).strip() if m else 'assertion failed'), 'output': out[-3000:]}
    if 'error[' in out or 'error:' in out and 'test result' not in out:
        return {'reproduced': False, 'how': 'native replay did not build', 'output': out[-3000:]}
    return {'reproduced': False, 'how': 'native run passed (the failing clause depends on the symbolic payload or on the facade)', 'output': out[-1500:]}


def harness_path(dst, harness):
    """full test path of the harness fn (module path derived from the file it was injected into)"""
    for h, target in kaniprep.INJECT.items():
        hp = os.path.join(VERIF, 'kani', h)
        if os.path.exists(hp) and re.search(r'\b%s\b' % re.escape(harness), open(hp).read()):
            mod = target[len('src/'):-len('.rs')].replace('/', '::')
            return '%s::verif_k::%s' % (mod, harness)
    return harness


if __name__ == '__main__':
    import tempfile
    d = tempfile.mkdtemp(prefix='rxreplay-')
    try:
        print(run(sys.argv[1], d, sys.argv[2]))
    finally:
        shutil.rmtree(d, ignore_errors=True)
