#!/bin/bash
# usage: seed_rerun2.sh <seed-id> fast|full
# applies the kept patch to /repo (git apply), runs the quick check of the seed's property, undoes the patch (git checkout), and
# records check_output / detected in seeded/<id>/meta.json.
#   fast: only the Verus and syntactic engines (VERIF_DEV_NO_KANI=1; seconds) - recorded only if it already reports the violation
#   full: the registered quick command as it is
set -u
id=$1; mode=${2:-full}
d=/verif/seeded/$id
prop=$(python3 -c "import json;print(json.load(open('$d/meta.json'))['breaks_property'])")
cd /repo && git diff --quiet || { echo "/repo not clean"; exit 2; }
git apply $d/patch.diff || { echo "$id: patch does not apply"; exit 2; }
if [ "$mode" = fast ]; then
  res=$(cd /verif && VERIF_DEV_NO_KANI=1 VERIF_NO_EVIDENCE=1 timeout 1200 ./check $prop --tier quick 2>&1 | grep -E "VIOLATION|UNDECIDED|NOT-EXPLORED|tier=" | cut -c1-400)
else
  res=$(cd /verif && VERIF_NO_EVIDENCE=1 timeout 3600 ./check $prop --tier quick 2>&1 | grep -E "VIOLATION|UNDECIDED|NOT-EXPLORED|tier=" | cut -c1-400)
fi
git -C /repo checkout -- .
python3 - "$id" "$mode" "$res" <<'PY'
import json,sys
id,mode,res=sys.argv[1:4]
p='/verif/seeded/%s/meta.json'%id
d=json.load(open(p))
det='VIOLATION' in res
if mode=='fast' and not det:
    print(id,'fast: not reported by the Verus/syntactic engines alone'); sys.exit(0)
d['check_output']=res.split('\n'); d['detected']=det
d['ran']=('./check %s --tier quick, Verus and syntactic engines only (VERIF_DEV_NO_KANI=1), ' if mode=='fast' else './check %s --tier quick ') % d['breaks_property'] + 'with the patch applied to /repo (git apply; undone afterwards)'
json.dump(d,open(p,'w'),indent=1)
print(id, 'detected' if det else 'NOT detected', [l for l in d['check_output'] if 'tier=' in l])
PY
