"""per-property plan: which engines contribute obligations (DESIGN section 4)"""

TRUSTED_BASE = [
    'Verus 0.2026.09.13 + Z3 (SMT back end)',
    'Kani 0.68 + CBMC 6.11 + CaDiCaL/kissat (for the K-refine obligations)',
    'rxprep (tokenizer-based extractor, rules R1-R5 of DESIGN 3.2): trusted to copy text faithfully; each unit carries span + sha256',
    'contract models in /verif/models (SctlModel, ObsModel, FnModel): specification side, not extracted',
]

ASSUMPTIONS = [
    'A1 std RwLock/Mutex give exclusive access for the guard lifetime; Arc = shared ownership; std HashMap/VecDeque/Vec implement their abstract types (vstd specs)',
    'A2 user functions passed to operators are pure, total, deterministic (FnModel); subscriber callbacks re-enter the library only by unsubscribing (prophecy `quits`)',
    'A3 generic Item fixed to i64 (Key to u8); overflow excluded by explicit requires where arithmetic is on items/counters',
    'A4 sequential execution: lock removal (R1) is sound only without concurrent threads; no schedule is explored',
    'A5 the StreamController contract used by Verus (models/prelude.rs SctlModel) is checked against the real code by the Kani K-refine obligations of C06 for <=2 upstreams, not beyond',
]

PLAN = {
    'C02': {
        'engines': ['verus_units'],
        'technique': 'Verus postconditions (operator definition as spec function + representation invariant) on handler bodies extracted from /repo each run',
        'level_text': 'for every operator unit: each handler, started from any state satisfying the representation invariant for any item history, re-establishes it and leaves the downstream trace equal to the ReactiveX definition applied to the extended history - all items, all counts, all lengths (induction over the history is the invariant); not a test of sampled inputs',
        'level_note': 'StreamController is represented by its contract (models/prelude.rs); user closures by an uninterpreted total function; Item=i64; locks dropped (sequential)',
        'design_ref': 'DESIGN.md 4.2',
    },
}
