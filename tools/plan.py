"""per-property plan: which engines contribute obligations (DESIGN section 4)"""

TRUSTED_BASE = [
    'Verus 0.2026.09.13 + Z3 (SMT back end)',
    'Kani 0.68 + CBMC 6.11 + CaDiCaL/kissat (for the K-refine obligations)',
    'rxprep (tokenizer-based extractor, span-replacement rules R1-R14 of DESIGN 3.2 / 4.6 / 4.13): trusted to copy text faithfully; each unit carries span + sha256 + the list of replacements made',
    'contract models in /verif/models (SctlModel, ObsModel, FnModel): specification side, not extracted',
]

ASSUMPTIONS = [
    'A1 std RwLock/Mutex give exclusive access for the guard lifetime; Arc = shared ownership; std HashMap/VecDeque/Vec implement their abstract types (vstd specs)',
    'A2 user functions passed to operators are pure, total, deterministic (FnModel); subscriber callbacks re-enter the library only by unsubscribing (prophecy `quits`)',
    'A3 generic Item fixed to i64 (Key to u8); overflow excluded by explicit requires where arithmetic is on items/counters',
    'A4 sequential execution: lock removal (R1) is sound only without concurrent threads; no schedule is explored',
    'A5 the StreamController contract used by the operator units (models/prelude.rs SctlModel) is connected to the real code twice: the methods extracted from stream_controller.rs are verified against the same clauses with Verus for any number of upstreams (unit stream_controller, over models of the map and of the subscriber Observer), and the real type with the lock/map facade is checked by the Kani K-refine obligations of C06 for <=2 upstreams; new / new_observer (closures) only by Kani',
]

PLAN = {
    'C01': {
        'engines': ['kani', 'verus_lemmas', 'syntactic'],
        'technique': 'Kani function contracts (K-refine) on the real Observer/FunctionWrapper/StreamController methods from every enumerated slot state + Verus induction over all call histories + encapsulation frame obligations',
        'level_text': 'every call on the subscriber\'s Observer (the only path to the user callbacks: private slots, subscribe() builds exactly one Observer) is proved to follow the contract table from each of the 16 slot states with symbolic payloads (loop-free harnesses = complete proofs per state); Verus proves by induction that every finite call sequence - any pipeline, any ill-formed source - yields next* (error|complete)? with nothing after the terminal',
        'level_note': 'sequential semantics (lock facade); re-entrancy depth 1; StreamController obligations bounded to <=2 upstreams; threads (C19) not covered',
        'design_ref': 'DESIGN.md 4.1',
    },
    'C02': {
        'engines': ['verus_units', 'kani'],
        'technique': 'Verus postconditions (operator definition as spec function + representation invariant) on handler bodies extracted from /repo each run',
        'level_text': 'for every operator unit: each handler, started from any state satisfying the representation invariant for any item history, re-establishes it and leaves the downstream trace equal to the ReactiveX definition applied to the extended history - all items, all counts, all lengths (induction over the history is the invariant); not a test of sampled inputs',
        'level_note': 'StreamController is represented by its contract (models/prelude.rs); user closures by an uninterpreted total function; Item=i64; locks dropped (sequential)',
        'design_ref': 'DESIGN.md 4.2',
    },
    'C03': {
        'engines': ['verus_units', 'syntactic', 'kani'],
        'technique': 'Verus postconditions on the extracted handlers of every input observer, over a ghost history of serial-tagged input events (all sequential interleavings = a universally quantified sequence)',
        'level_text': 'for merge, amb, take_until, skip_until, sample, switch_on_next: each handler of each input, from any state reachable for any interleaved history, leaves the downstream trace equal to the operator definition on the extended history and the set of still-registered inputs as defined; "register all observers before subscribing any source" is a skeleton fact',
        'level_note': 'zip / combine_latest / sequence_equal have handlers built from iterator adapters and closures: not extractable, listed as not under contract in the evidence (bounded native harnesses for zip and sequence_equal; combine_latest and sequence_equal are open known findings); concat and flat_map subscribe inside a handler and are extracted with rule R7\' (nested handlers as units of their own); StreamController by contract; sequential',
        'design_ref': 'DESIGN.md 4.3',
    },
    'C04': {
        'engines': ['verus_units', 'kani', 'syntactic'],
        'technique': 'Verus postconditions on every extracted error handler (the same payload value is forwarded as the terminal) + materialize/dematerialize contracts + Kani contracts on the real RxError (clone/downcast identity, same payload object delivered through sink_error)',
        'level_text': 'every non-handling operator under contract forwards the error it received, unchanged, as the only further event; RxError clone/downcast_ref return the original value for all payload values; materialize/dematerialize are proved against their definitions',
        'level_note': 'retry / retry_when / on_error_resume_next resubscribe inside a handler: extracted with rule R7\' (the nested fn do_subscribe and the nested handlers are units of their own; single-upstream discipline: the failed attempt is given up before the next one is subscribed); what a re-subscribed source emits synchronously is covered by the loose contract of subscribe_inner only',
        'design_ref': 'DESIGN.md 4.4',
    },
    'C05': {
        'engines': ['kani', 'verus_lemmas', 'syntactic'],
        'technique': 'Kani contracts on Observer::unsubscribe / Subscription / inner_subscribe / Using::drop + Verus timeline lemma + slot-monotonicity frame obligation',
        'level_text': 'unsubscribe leaves all four slots empty from every slot state and runs the teardown exactly once; idempotence, is_subscribed timeline and "nothing after unsubscribe" are proved for all call histories by induction; the cross-thread clause is derived from slot monotonicity under the lock-atomicity assumption, no schedule is explored',
        'level_note': 'sequential; A1 lock atomicity assumed for the cross-thread clause',
        'design_ref': 'DESIGN.md 4.5',
    },
    'C06': {
        'engines': ['kani', 'verus_units', 'syntactic'],
        'technique': 'Verus contracts on the StreamController methods extracted from /repo (every ending path, any number of registered upstreams, re-entrant downstream unsubscribe) + Kani contracts on the same paths of the real type (<=2 upstreams, real locks/map facade) + Verus contracts on early-stopping handlers and producer loops extracted from /repo',
        'level_text': 'each ending path (sink_error, last sink_complete, sink_complete_force, finalize, downstream unsubscribe, re-entrant unsubscribe) is proved to leave every registered upstream observer unsubscribed and the map empty; producer loops are proved to re-check is_subscribed before every emission',
        'level_note': 'the Verus StreamController unit is unbounded in the number of upstreams over models of the lock-protected map and of the subscriber Observer (assumptions listed); the Kani obligations on the real type with the lock/map facade are bounded to <=2 registered upstreams; new_observer/new (closures) are covered by Kani only; interval/timer threads are C15/C16 (not applicable)',
        'design_ref': 'DESIGN.md 4.6',
    },
    'C10': {
        'level': 'other',
        'explanation': 'mixed: (1) per-call PROOF (Verus, all items and histories, over their models) for the emitting methods of BehaviorSubject / ReplaySubject extracted from /repo (stored value / history updated before the inner Subject multicasts; a terminated subject ignores further events) and for BehaviorSubject\'s hand-over block; (2) frame obligations on the token tree (per-subscription state in observable()); (3) the plain Subject itself - which every other subject forwards to - is checked only by BOUNDED Kani harnesses on the real type (concrete call sequences, <= 2 observers at once, symbolic items, both map orders, re-entrant unsubscribe) and by native runs of the hand-over sequences.  The obligations/discharged counts cover (1) and (2); the Subject part is listed under bounded_stand_ins.  No induction over subject call histories was built, hence level other and not proof.',
        'engines': ['kani', 'syntactic', 'verus_units'],
        'technique': 'Kani contracts on the real Subject (next/error/complete/subscribe/unsubscribe vs SubjectModel) + Verus contracts on the extracted BehaviorSubject/ReplaySubject emitting methods and BehaviorSubject hand-over + per-subscription frame obligation on observable()',
        'level_text': 'each Subject operation, on the real type, from pre-states with 1 observer (quick) or 2 observers (thorough), symbolic items, both map iteration orders: delivered to exactly the registered observers once, nothing held after a terminal/unsubscribe; re-entrant unsubscribe; hand-over of the other subject types on concrete call sequences',
        'level_note': 'the plain Subject is bounded in observers (<=2 at once) and in the length of the concrete call sequences; sequential; no Verus induction over call histories was built for subjects; a plain Subject accepting subscribers after its terminal is an open known finding',
        'design_ref': 'DESIGN.md 4.10',
    },
    'C13': {
        'level': 'other',
        'explanation': 'the connect/disconnect decisions of ref_count and replay (the two callbacks set_ref_count registers on the inner subject) are extracted from /repo and verified with Verus against contracts taken from the property, over a ghost world of live source subscriptions; frame obligations are decided on the token tree (no cached observer in the connectables, per-subscription state in the subjects\' observable()); the call-sequence part of the property is checked by bounded conformance on the real types: Kani for publish (concrete call sequences, symbolic items), native runs with concrete payloads for ref_count/replay (their harnesses exceed 600 s under Kani). The obligations/discharged counts cover the Verus and syntactic obligations; nothing here is an unbounded proof of the call-sequence property as a whole, hence level other.',
        'engines': ['kani', 'syntactic', 'verus_units'],
        'technique': 'Verus contracts on the connect/disconnect callbacks of ref_count and replay and on publish::connect extracted from /repo (when the source is subscribed / unsubscribed) + Kani bounded call sequences on the real publish/ref_count/replay with a hot instrumented source + frame obligations (no cached observer, per-subscription slots)',
        'level_text': 'decisions proved over the model (count == 0 leaves no live source subscription; count == 1 connects exactly once from the never-connected state; nothing changes while connected; count == 0 also empties the stored connection, so a first subscriber after everybody left connects again - repaired by fix c8cd3a5; a connection ended by the source itself is not re-made) + frame obligations (syntactic) + bounded conformance: number of source subscriptions, sharing among subscribers, stop on last unsubscribe and replay-from-the-beginning are checked on the real types for concrete call sequences (<=2 subscribers at once): publish under Kani (symbolic items; three of the four harnesses only in the thorough tier), ref_count/replay by native runs (concrete items)',
        'level_note': 'NOT a proof of the call-sequence property as a whole: the sequences are bounded stand-ins, labelled as such; ref_count/replay call sequences are beyond Kani here (> 600 s per harness); synchronous sources re-entering the subject during connect are covered by the bounded harnesses only',
        'design_ref': 'DESIGN.md 4.13',
    },
    'C14': {
        'engines': ['syntactic', 'verus_units'],
        'technique': 'allocation-site frame obligation decided on the token tree for every operator (state mutated by handlers is created inside the create-closure) + Verus init obligations',
        'level_text': 'for all operators: no operator value holds shared mutable state and no state cell is created outside the per-subscription closure, so every subscribe() starts the proved machine from its initial state; tap is additionally proved to invoke its callbacks through per-subscription clones',
        'level_note': 'syntactic frame condition, sound for the recognised skeleton (unknown shapes are undecided, not passed); connectables are C13',
        'design_ref': 'DESIGN.md 4.14',
    },
    'C17': {
        'engines': ['kani', 'verus_units', 'verus_lemmas', 'syntactic'],
        'technique': 'Verus post-state contracts on the StreamController methods extracted from /repo (map empty, on_finalize taken, subscriber teardown taken after every ending path; any number of upstreams) + Kani post-state contracts "no closure retained" on every ending path of the real StreamController and Observer',
        'level_text': 'after each ending path the subscriber\'s four slots (including the teardown closure that owns the controller), the upstream map and on_finalize are proved empty: the only owning edges that can form a cycle are cut',
        'level_note': 'Kani part bounded to <=2 upstreams (the Verus unit is not, over its models); acyclicity of the remaining ownership edges is an argument in DESIGN 4.17, not mechanised',
        'design_ref': 'DESIGN.md 4.17',
    },
}
