#!/bin/bash
# end-of-session: regenerate the quick-tier evidence of every claimed property on the clean /repo (sequentially, nothing else
# running), regenerate MANIFEST.json and the seed table of DESIGN.md, validate everything against the schemas.
set -u
cd /repo && git diff --quiet && [ -z "$(git status --short)" ] || { echo "/repo not clean"; exit 2; }
cd /verif
rc_all=0
for p in C02 C03 C14 C13 C04 C01 C05 C10 C06 C17; do
  /usr/bin/time -f "$p %e s" ./check $p --tier quick > /tmp/final_$p.log 2>&1; rc=$?
  tail -2 /tmp/final_$p.log | cut -c1-200
  [ $rc -ne 0 ] && { echo "!! $p exit $rc"; rc_all=1; grep -E "VIOLATION|UNDECIDED" /tmp/final_$p.log | cut -c1-300; }
done
python3 tools/mkmanifest.py
python3 - <<'PY'
import re,subprocess
t=subprocess.run(['python3','/verif/tools/seedtable.py'],capture_output=True,text=True).stdout
s=open('/verif/DESIGN.md').read()
a=s.index('<!-- seed table begin -->'); b=s.index('<!-- seed table end -->')
s=s[:a]+'<!-- seed table begin -->\n'+t+s[b:]
open('/verif/DESIGN.md','w').write(s)
PY
python3-vt - <<'PY'
import json, jsonschema, glob
jsonschema.validate(json.load(open('/verif/MANIFEST.json')), json.load(open('/root/.vp/MANIFEST.schema.json')))
es=json.load(open('/root/.vp/EVIDENCE.schema.json'))
for f in sorted(glob.glob('/verif/evidence/*.json')):
    e=json.load(open(f)); jsonschema.validate(e, es)
    c=e['coverage']; print(f.split('/')[-1], e['tier'], e['level'], c.get('obligations'), c.get('discharged'), 'violations', e.get('violations'), 'not_explored', len(c.get('not_explored',[])), 'undecided', len(c.get('undecided',[])))
print('schemas ok')
PY
exit $rc_all
