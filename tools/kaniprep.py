"""kaniprep: prepare a scratch copy of /repo for Kani (DESIGN 3.1).
  P1  `RwLock` and `Arc` imported from std::sync  -> crate::verif_sync::{RwLock, Arc}   (all non-test `use` items)
  P2  `HashMap` imported from std::collections -> crate::verif_sync::HashMap   (stream_controller.rs, subjects/subject.rs only)
  P4  harness modules appended:  kani/in_<file>.rs  -> `#[cfg(kani)] mod verif_k { use super::*; ... }` at the end of that
      file (private-field access), kani/common.rs -> crate-level `#[cfg(kani)] pub mod verif_kani`
Nothing else is touched; no function body of the crate is rewritten.
"""
import os, re, shutil, sys, glob
sys.path.insert(0, os.path.dirname(__file__))
from rxlex import tree, walk

VERIF = os.path.dirname(os.path.dirname(os.path.abspath(__file__)))
P2_FILES = ['src/internals/stream_controller.rs', 'src/subjects/subject.rs']
INJECT = {
    'in_function_wrapper.rs': 'src/internals/function_wrapper.rs',
    'in_observer.rs': 'src/observer.rs',
    'in_subscription.rs': 'src/subscription.rs',
    'in_stream_controller.rs': 'src/internals/stream_controller.rs',
    'in_subject.rs': 'src/subjects/subject.rs',
    'in_rx_error.rs': 'src/rx_error.rs',
    'in_connectable.rs': 'src/operators/ref_count.rs',
    'in_subjects2.rs': 'src/subjects/behavior_subject.rs',
    'in_replay_subject.rs': 'src/subjects/replay_subject.rs',
    'in_pipelines.rs': 'src/operators/zip.rs',
}


class PrepError(Exception):
    pass


def drop_from_use(src, name):
    """remove identifier `name` from `use std::...` items; returns (new_src, removed_count)"""
    toks = tree(src)
    edits = []
    i = 0
    while i < len(toks):
        t = toks[i]
        if t.is_id('use'):
            j = i
            while j < len(toks) and not toks[j].is_p(';'):
                j += 1
            stmt = toks[i:j]
            first = stmt[1] if len(stmt) > 1 else None
            if first is not None and first.is_id('std'):
                for parent, k, u in walk(stmt):
                    if u.is_id(name):
                        nxt = parent[k + 1] if k + 1 < len(parent) else None
                        prv = parent[k - 1] if k > 0 else None
                        if nxt is not None and nxt.is_p(':'):
                            continue
                        if prv is not None and prv.is_p(':') and parent is stmt:
                            # `use std::sync::RwLock;` -> drop the whole statement
                            edits.append((stmt[0].start, toks[j].end, ''))
                        elif prv is not None and prv.is_p(':'):
                            # `collections::HashMap` inside a brace group: drop the whole path element
                            b = k
                            while b >= 3 and parent[b - 1].is_p(':') and parent[b - 2].is_p(':') and parent[b - 3].kind == 'ident':
                                b -= 3
                            start = parent[b].start
                            if nxt is not None and nxt.is_p(','):
                                edits.append((start, nxt.end, ''))
                            elif b > 0 and parent[b - 1].is_p(','):
                                edits.append((parent[b - 1].start, u.end, ''))
                            else:
                                edits.append((start, u.end, 'sync::Arc as _VerifUnusedArc'))
                        elif nxt is not None and nxt.is_p(','):
                            edits.append((u.start, nxt.end, ''))
                        elif prv is not None and prv.is_p(','):
                            edits.append((prv.start, u.end, ''))
                        else:
                            # sole element of a brace group, e.g. `sync::{RwLock}`: replace by an unused but valid name
                            edits.append((u.start, u.end, 'Arc as _VerifUnusedArc'))
            i = j
        i += 1
    out = src
    for s, e, n in sorted(edits, reverse=True):
        out = out[:s] + n + out[e:]
    return out, len(edits)


def prepare(repo, dst):
    if os.path.exists(dst):
        shutil.rmtree(dst)
    os.makedirs(dst)
    shutil.copytree(os.path.join(repo, 'src'), os.path.join(dst, 'src'))
    for f in ('Cargo.toml', 'Cargo.lock', 'README.md'):
        if os.path.exists(os.path.join(repo, f)):
            shutil.copy(os.path.join(repo, f), os.path.join(dst, f))
    if not os.path.exists(os.path.join(dst, 'README.md')):
        open(os.path.join(dst, 'README.md'), 'w').write('')
    # dev-dependencies are not needed (no tests are built)
    ct = open(os.path.join(dst, 'Cargo.toml')).read()
    ct = re.sub(r'\n\[dev-dependencies\].*?(?=\n\[|\Z)', '\n', ct, flags=re.S)
    ct += '\n[lints.rust]\nunexpected_cfgs = { level = "allow" }\n'
    open(os.path.join(dst, 'Cargo.toml'), 'w').write(ct)
    os.makedirs(os.path.join(dst, '.cargo'), exist_ok=True)
    open(os.path.join(dst, '.cargo', 'config.toml'), 'w').write('[net]\noffline = true\n')
    n_rw = 0
    for path in glob.glob(os.path.join(dst, 'src', '**', '*.rs'), recursive=True):
        rel = os.path.relpath(path, dst)
        src = open(path).read()
        # cut test modules off (they are not compiled by Kani; cutting keeps `use` rewriting simple)
        new, k = drop_from_use(src, 'RwLock')
        if k:
            new = 'use crate::verif_sync::RwLock;\n' + new
            n_rw += k
        new, ka = drop_from_use(new, 'Arc')
        if ka:
            new = 'use crate::verif_sync::Arc;\n' + new
        if rel in P2_FILES:
            new, k2 = drop_from_use(new, 'HashMap')
            if not k2:
                raise PrepError('anchor lost: HashMap import in %s' % rel)
            # stream_controller: Vec-based map (values are FunctionWrappers); subject: fixed-capacity array map (values are
            # Observers) - each measured to be the cheaper encoding for CBMC in its place
            if rel.endswith('subject.rs'):
                new = 'use crate::verif_sync::ArrayHashMap as HashMap;\n' + new
            else:
                new = 'use crate::verif_sync::HashMap;\n' + new
        if new != src:
            open(path, 'w').write(new)
    if n_rw == 0:
        raise PrepError('anchor lost: no std RwLock import found')
    shutil.copy(os.path.join(VERIF, 'facade', 'verif_sync.rs'), os.path.join(dst, 'src', 'verif_sync.rs'))
    lib = open(os.path.join(dst, 'src', 'lib.rs')).read()
    lib += '\npub mod verif_sync;\n#[cfg(kani)]\npub mod verif_kani;\n'
    open(os.path.join(dst, 'src', 'lib.rs'), 'w').write(lib)
    shutil.copy(os.path.join(VERIF, 'kani', 'common.rs'), os.path.join(dst, 'src', 'verif_kani.rs'))
    for h, target in INJECT.items():
        hp = os.path.join(VERIF, 'kani', h)
        if not os.path.exists(hp):
            continue
        tp = os.path.join(dst, target)
        if not os.path.exists(tp):
            raise PrepError('anchor lost: %s' % target)
        body = open(hp).read()
        # every harness stubs alloc::fmt::format (see kani/common.rs stub_format)
        body = body.replace('#[kani::proof]', '#[kani::proof]\n    #[kani::stub(std::fmt::format, crate::verif_kani::stub_format)]')
        with open(tp, 'a') as f:
            f.write('\n#[cfg(kani)]\npub(crate) mod verif_k {\n  #![allow(unused_imports, unused_variables, dead_code)]\n  use super::*;\n  use crate::verif_kani::*;\n%s\n}\n' % body)
    return dst


if __name__ == '__main__':
    prepare(sys.argv[1], sys.argv[2])
    print('prepared', sys.argv[2])
