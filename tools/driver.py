"""driver: runs the obligations of one property and writes evidence (see /verif/check)."""
import concurrent.futures as cf
import glob
import hashlib
import json
import os
import re
import shutil
import subprocess
import sys
import tempfile
import time

VERIF = os.path.dirname(os.path.dirname(os.path.abspath(__file__)))
sys.path.insert(0, os.path.join(VERIF, 'tools'))
import vgen  # noqa: E402

NCPU = os.cpu_count() or 4
VERUS_RLIMIT = '30'


class Obl:
    def __init__(self, oid, engine, backend, props, unit=None, fn=None, bound=None, where=None):
        self.id = oid
        self.engine = engine
        self.backend = backend
        self.props = props
        self.unit = unit
        self.fn = fn
        self.bound = bound          # None = unbounded proof obligation; str = description of the bound
        self.where = where          # file:line in /repo
        self.status = 'pending'     # discharged | failed | undecided
        self.detail = ''
        self.seconds = 0.0
        self.known = None
        self.extra = {}

    def to_json(self):
        d = {'id': self.id, 'engine': self.engine, 'backend': self.backend, 'status': self.status,
             'seconds': round(self.seconds, 3), 'bound': self.bound or 'none'}
        if self.where:
            d['where'] = self.where
        if self.detail and self.status != 'discharged':
            d['detail'] = self.detail[:2000]
        return d


# ------------------------------------------------------------------------------------------------------------------
# Verus

def fn_line_ranges(text):
    """name -> (first_line, last_line) for top-level `fn`/`proof fn` items inside verus! blocks (1-based)"""
    ranges = {}
    lines = text.split('\n')
    cur = None
    for i, ln in enumerate(lines, 1):
        m = re.match(r'^(?:pub\s+)?(?:proof\s+|exec\s+)?fn\s+(\w+)', ln)
        if m and cur is None:
            cur = (m.group(1), i)
        if cur and ln.startswith('}'):
            ranges[cur[0]] = (cur[1], i)
            cur = None
    return ranges


def run_verus(path, timeout=600):
    t0 = time.time()
    try:
        p = subprocess.run(['verus', os.path.basename(path), '--output-json', '--time', '--multiple-errors', '1',
                            '--rlimit', VERUS_RLIMIT],
                           cwd=os.path.dirname(path), capture_output=True, text=True, timeout=timeout)
    except subprocess.TimeoutExpired:
        return {'fatal': 'verus timeout after %ds' % timeout, 'wall': time.time() - t0}
    wall = time.time() - t0
    out, err = p.stdout, p.stderr
    try:
        j = json.loads(out)
    except Exception:
        return {'fatal': 'verus produced no JSON: ' + (err or out)[-3000:], 'wall': wall}
    vr = j.get('verification-results', {})
    res = {'wall': wall, 'stderr': err, 'verified': vr.get('verified'), 'errors': vr.get('errors'), 'fns': {}, 'json_times': j.get('times-ms', {}).get('smt', {})}
    if vr.get('encountered-vir-error') or (vr.get('encountered-error') and vr.get('errors', 0) == 0 and not vr.get('success')):
        res['fatal'] = 'verus front-end error: ' + err[-3000:]
        return res
    for mod in j.get('times-ms', {}).get('smt', {}).get('smt-run-module-times', []):
        for fb in mod.get('function-breakdown', []):
            name = fb['function'].split('::')[-1]
            res['fns'][name] = {'success': fb.get('success'), 'ms': fb.get('time-micros', 0) / 1000.0, 'rlimit': fb.get('rlimit')}
    # attribute diagnostics to functions
    text = open(path).read()
    ranges = fn_line_ranges(text)
    base = os.path.basename(path)
    blocks = re.split(r'\n(?=error)', err)
    for b in blocks:
        if not b.startswith('error'):
            continue
        m = re.search(r'--> %s:(\d+):' % re.escape(base), b)
        if not m:
            continue
        ln = int(m.group(1))
        lines_in_block = [int(x) for x in re.findall(r'^\s*(\d+)\s*\|', b, flags=re.M)]
        cand = [ln] + lines_in_block
        for name, (a, z) in ranges.items():
            if any(a <= c <= z for c in cand):
                res['fns'].setdefault(name, {'success': False, 'ms': 0})
                res['fns'][name].setdefault('msgs', []).append(b.strip()[:1500])
    return res


def classify_verus_fn(r, name):
    """-> (status, detail, seconds)"""
    if 'fatal' in r:
        return 'undecided', r['fatal'], 0.0
    f = r['fns'].get(name)
    if f is None:
        # spec-only / trivially discharged functions do not appear in the breakdown: if verus reported success overall the
        # function generated no SMT query of its own
        if r.get('errors') == 0:
            return 'discharged', 'no SMT query needed', 0.0
        return 'undecided', 'function not reported by verus', 0.0
    msgs = '\n'.join(f.get('msgs', []))
    if f.get('success'):
        return 'discharged', '', f.get('ms', 0) / 1000.0
    if 'rlimit' in msgs.lower() and 'exceeded' in msgs.lower():
        return 'undecided', msgs, f.get('ms', 0) / 1000.0
    return 'failed', msgs or 'verus reported failure', f.get('ms', 0) / 1000.0


VERUS_OBL_PROPS_DEFAULT = {'single': {'init': None, 'next': None, 'error': ['C04'], 'complete': None}}


def collect_verus_units(prop, repo, scratch, only=None):
    """generate + run every sidecar unit that serves `prop`; returns (obligations, meta)"""
    obls = []
    meta = {'units': [], 'functions_under_contract': [], 'twins_rejected': 0, 'twins_total': 0, 'assumption_scan': []}
    jobs = []
    outdir = os.path.join(scratch, 'v')
    os.makedirs(outdir, exist_ok=True)
    for sc_path in sorted(glob.glob(os.path.join(VERIF, 'contracts', '*.toml'))):
        sc = vgen.load_sidecar(sc_path)
        props_unit = set(sc.get('props', []))
        extra = sc.get('obligation_props', {})
        all_props = set(props_unit)
        for v in extra.values():
            all_props.update(v)
        if sc.get('c06', True) and sc.get('kind', 'single') in ('single', 'multi'):
            all_props.add('C06')
        if sc.get('kind', 'single') in ('single', 'multi'):
            all_props.add('C04') if sc.get('error_is_c04', True) else None
        if sc.get('kind') == 'multi':
            all_props.add('C17')      # only the wiring facts of a multi-input unit serve C17 (an input wired after the end is never released)
        if sc.get('c06_ensures'):
            all_props.add('C06')
        all_props.update(sc.get('guard_fact_props', []))
        if prop not in all_props:
            continue
        op = sc['op']
        if only and only not in op:
            continue
        try:
            g = vgen.gen_unit(sc_path, repo)
        except vgen.UnitError as e:
            o = Obl('%s.V.%s' % (prop, op), 'verus', 'verus/z3', [prop], unit=op)
            o.status = 'undecided'
            o.detail = '%s: %s' % (e.kind, e)
            obls.append(o)
            continue
        f_main = os.path.join(outdir, op + '.rs')
        f_twin = os.path.join(outdir, op + '_twins.rs')
        open(f_main, 'w').write(g['text'])
        open(f_twin, 'w').write(g['twins'])
        jobs.append((sc, g, f_main, f_twin, props_unit, extra))
    with cf.ThreadPoolExecutor(max_workers=NCPU) as ex:
        futs = {}
        for sc, g, f_main, f_twin, props_unit, extra in jobs:
            futs[ex.submit(run_verus, f_main)] = ('main', sc, g, props_unit, extra, f_main)
            futs[ex.submit(run_verus, f_twin)] = ('twin', sc, g, props_unit, extra, f_twin)
        results = {}
        for fu in cf.as_completed(futs):
            kind, sc, g, props_unit, extra, path = futs[fu]
            results[(g['op'], kind)] = (fu.result(), sc, g, props_unit, extra, path)
    for (op, kind), (r, sc, g, props_unit, extra, path) in sorted(results.items()):
        if kind == 'twin':
            # vacuity guard: every twin must be rejected
            for tn in g['twin_names']:
                meta['twins_total'] += 1
                st, detail, _ = classify_verus_fn(r, tn)
                if st == 'failed':
                    meta['twins_rejected'] += 1
                else:
                    o = Obl('%s.V.%s.twin.%s' % (prop, op, tn), 'verus', 'verus/z3', [prop], unit=op, fn=tn)
                    o.status = 'undecided'
                    o.detail = 'vacuity guard: must-fail twin was not rejected (%s) %s' % (st, detail[:500])
                    obls.append(o)
            continue
        meta['units'].append({'unit': op, 'file': sc['file'], 'skeleton': g['facts'], 'verus_wall_s': round(r.get('wall', 0), 2)})
        text = g['text']
        meta['assumption_scan'] += scan_assumptions(text, op)
        by_fn = {m['fn']: m for m in g['extracted']}
        for fn in g['fn_names']:
            short = fn[len(op) + 1:] if fn.startswith(op + '_') else fn
            ps = set(extra.get(short, props_unit))
            if short.endswith('_c06'):
                ps = {'C06'}
            elif short.endswith('error') and sc.get('error_is_c04', True):
                ps = ps | {'C04'}
            if prop not in ps:
                continue
            m = by_fn.get(fn)
            where = '%s:%d' % (m['file'], m['line']) if m else sc['file']
            o = Obl('%s.V.%s.%s' % (prop, op, short), 'verus', 'verus/z3', sorted(ps), unit=op, fn=fn, where=where)
            o.status, o.detail, o.seconds = classify_verus_fn(r, fn)
            o.extra['generated'] = path
            if m:
                meta['functions_under_contract'].append({'fn': fn, 'file': m['file'], 'line': m['line'], 'sha256': m['sha256'],
                                                         'replacements': len(m['replacements'])})
            obls.append(o)
        # lemmas named in the sidecar
        for ln in sc.get('lemmas', []):
            lps = set(extra.get(ln, props_unit))
            if prop not in lps:
                continue
            o = Obl('%s.V.%s.%s' % (prop, op, ln), 'verus', 'verus/z3', sorted(lps), unit=op, fn=ln)
            o.status, o.detail, o.seconds = classify_verus_fn(r, ln)
            obls.append(o)
        for fact, tup in g.get('definite_facts', {}).items():
            ok, why = tup[0], tup[1]
            fprops = set(tup[2]) if len(tup) > 2 else (props_unit | {'C06'} | ({'C17'} if sc.get('kind') == 'multi' else set()))
            if prop in fprops:
                o = Obl('%s.S.%s.%s' % (prop, op, fact), 'syntactic', 'rxprep', sorted(fprops), unit=op, where=sc['file'])
                o.status = 'discharged' if ok else 'failed'
                o.detail = '' if ok else why
                obls.append(o)
        # skeleton obligation (syntactic)
        o = Obl('%s.S.%s.skeleton' % (prop, op), 'syntactic', 'rxprep', sorted(props_unit), unit=op, where=sc['file'])
        if g['skeleton_problems']:
            o.status = 'undecided'
            o.detail = '; '.join(g['skeleton_problems'])
        else:
            o.status = 'discharged'
        obls.append(o)
    return obls, meta


def not_under_contract(repo):
    """operator / creation-function files for which no sidecar exists (reported in the evidence, nothing is claimed about them)"""
    covered = set()
    for sc_path in glob.glob(os.path.join(VERIF, 'contracts', '*.toml')):
        covered.add(vgen.load_sidecar(sc_path)['file'])
    out = []
    for d in ('src/operators', 'src/observables'):
        for p in sorted(glob.glob(os.path.join(repo, d, '*.rs'))):
            rel = os.path.relpath(p, repo)
            if rel not in covered and not rel.endswith('mod.rs'):
                out.append(rel)
    return out


def scan_assumptions(text, unit):
    found = []
    for kw in ('external_body', 'assume_specification', 'admit(', 'assume(', 'uninterp', 'exec_allows_no_decreases_clause'):
        n = len(re.findall(re.escape(kw), text))
        if n:
            found.append('%s: %d x %s (contract models / user-function model; DESIGN 3.7)' % (unit, n, kw))
    return found


def collect_verus_lemmas(prop, scratch):
    """stand-alone Verus proof files: first line `// props: C01 C05`; every proof fn is an obligation"""
    obls = []
    outdir = os.path.join(scratch, 'l')
    os.makedirs(outdir, exist_ok=True)
    jobs = []
    for p in sorted(glob.glob(os.path.join(VERIF, 'lemmas', '*.rs'))):
        head = open(p).readline()
        m = re.match(r'//\s*props:\s*(.*)', head)
        if not m or prop not in m.group(1).split():
            continue
        text = open(p).read()
        if '// include-prelude' in text:
            text = open(os.path.join(VERIF, 'models', 'prelude.rs')).read() + '\n' + text
        dst = os.path.join(outdir, os.path.basename(p))
        open(dst, 'w').write(text)
        jobs.append((p, dst, text))
    with cf.ThreadPoolExecutor(max_workers=NCPU) as ex:
        rs = list(ex.map(lambda j: run_verus(j[1]), jobs))
    for (p, dst, text), r in zip(jobs, rs):
        stem = os.path.splitext(os.path.basename(p))[0]
        names = re.findall(r'^(?:pub\s+)?proof\s+fn\s+(\w+)', open(p).read(), flags=re.M)
        for n in names:
            o = Obl('%s.V.lemma.%s.%s' % (prop, stem, n), 'verus', 'verus/z3', [prop], unit=stem, fn=n, where='lemmas/' + os.path.basename(p))
            o.status, o.detail, o.seconds = classify_verus_fn(r, n)
            obls.append(o)
    return obls


# ------------------------------------------------------------------------------------------------------------------
# known findings, replay, evidence

def load_known():
    p = os.path.join(VERIF, 'known_findings.json')
    if not os.path.exists(p):
        return {'findings': [], 'fixed': []}
    return json.load(open(p))


def match_known(obl, known, prop):
    for k in known.get('findings', []):
        if k.get('status', 'open') != 'open' or k.get('property') != prop:
            continue
        if k.get('obligation') in (obl.id, obl.id.replace('.N.', '.K.')):
            sig = k.get('signature')
            if sig and sig not in obl.detail:
                continue
            return k
    return None


def write_replay(prop, obl, scratch, extra=None):
    d = os.path.join(VERIF, 'replays')
    os.makedirs(d, exist_ok=True)
    name = '%s-%s.json' % (obl.id.replace('/', '_'), time.strftime('%Y%m%d-%H%M%S'))
    path = os.path.join(d, name)
    rec = {'property': prop, 'failed_obligation': obl.id, 'engine': obl.engine, 'backend': obl.backend,
           'where': obl.where, 'verifier_output': obl.detail, 'witness': None}
    gen = obl.extra.get('generated')
    if gen and os.path.exists(gen):
        rec['verified_text_file'] = os.path.basename(gen)
        txt = open(gen).read()
        if obl.fn:
            m = re.search(r'(// extracted[^\n]*\n// replacements[^\n]*\n)?fn %s\(.*?\n}\n' % re.escape(obl.fn), txt, flags=re.S)
            if m:
                rec['obligation_text'] = m.group(0)
    if extra:
        rec.update(extra)
    json.dump(rec, open(path, 'w'), indent=1)
    return path


def main(a):
    t0 = time.time()
    prop = a.prop
    props = [json.loads(l) for l in open(os.path.join(VERIF, 'properties.jsonl'))]
    ids = [p['id'] for p in props]
    if prop not in ids:
        print('unknown property', prop)
        return 2
    if a.replay:
        return replay(a)
    scratch = tempfile.mkdtemp(prefix='rxverif-%s-' % prop)
    try:
        return run_property(a, prop, scratch, t0)
    finally:
        if not a.keep:
            shutil.rmtree(scratch, ignore_errors=True)
        else:
            print('scratch kept at', scratch)


def replay(a):
    rec = json.load(open(a.replay))
    print(json.dumps(rec, indent=1)[:6000])
    import replaysearch
    return replaysearch.rerun(rec, a.repo)


def run_property(a, prop, scratch, t0):
    import plan
    repo = a.repo
    # snapshot of the working tree (sources only) so that every engine sees the same text
    snap = os.path.join(scratch, 'repo')
    shutil.copytree(repo, snap, ignore=shutil.ignore_patterns('target', '.git'))
    obls = []
    meta = {}
    pl = plan.PLAN.get(prop)
    if pl is None:
        print('property %s is not claimed (see MANIFEST.json not_applicable)' % prop)
        return 2
    if 'verus_units' in pl['engines']:
        o, m = collect_verus_units(prop, snap, scratch, a.only)
        obls += o
        meta.update(m)
        meta['not_under_contract'] = not_under_contract(snap)
    if 'verus_lemmas' in pl['engines']:
        obls += collect_verus_lemmas(prop, scratch)
    if 'syntactic' in pl['engines']:
        import syntactic
        obls += syntactic.collect(prop, snap)
    if 'kani' in pl['engines'] and not os.environ.get('VERIF_DEV_NO_KANI'):
        import kanirun
        o, m = kanirun.collect(prop, snap, scratch, a.tier, a.only)
        obls += o
        meta.setdefault('kani', m)
    if a.tier == 'thorough' and not a.only:
        meta['self_test'] = self_test(prop, snap, scratch, pl)
        for st in meta['self_test']:
            if st['expected_detection'] and not st['detected']:
                o = Obl('%s.T.selftest.%s' % (prop, st['seed']), 'selftest', 'seeded change', [prop], bound='self-test of the machinery, not an obligation of the property')
                o.status = 'undecided'
                o.detail = 'machinery regression: the kept seeded change %s was detected by the Verus/syntactic engines when it was recorded and is not any more' % st['seed']
                obls.append(o)
    bounded_refutation(prop, obls, snap, scratch)
    # ---- verdict -----------------------------------------------------------------------------------------------
    known = load_known()
    violations, undecided, kf_lines, not_explored = [], [], [], []
    for o in obls:
        if o.status == 'failed':
            k = match_known(o, known, prop)
            if k:
                o.known = k
                kf_lines.append('KNOWN-FINDING: property=%s %s %s' % (prop, o.id, k.get('what', '')))
            else:
                violations.append(o)
        elif o.status == 'undecided':
            if o.engine == 'kani' and re.match(r'(kani/cbmc timeout|cbmc out of memory)', o.detail or ''):
                not_explored.append(o)     # a resource limit of this machine/run, not a statement about the code
            else:
                undecided.append(o)
    # Resource limits (cbmc timeout / memory cap) say nothing about the code: the harness is reported as NOT-EXPLORED, listed in the
    # evidence and left out of the obligation counts; it does not change the exit code - unless most Kani obligations of this run were
    # hit, which means the run itself is unusable (exit 2).
    n_kani = sum(1 for o in obls if o.engine == 'kani')
    for o in not_explored:
        print('NOT-EXPLORED property=%s obligation=%s: %s' % (prop, o.id, o.detail))
    if not_explored and 2 * len(not_explored) > n_kani:
        undecided.extend(not_explored)
        not_explored = []
    # open findings whose obligation no longer fails are simply not printed (stale entries suppress nothing)
    for l in kf_lines:
        print(l)
    rc = 0
    replay_paths = []
    if violations:
        import replaysearch
        for o in violations:
            extra = replaysearch.find_witness(o, snap, scratch)
            path = write_replay(prop, o, scratch, extra)
            replay_paths.append(path)
            suffix = '' if (extra and extra.get('witness')) else ' no-failing-input-found'
            print('VIOLATION property=%s replay=%s obligation=%s%s' % (prop, path, o.id, suffix))
        rc = 1
    elif undecided:
        for o in undecided:
            print('UNDECIDED property=%s obligation=%s: %s' % (prop, o.id, o.detail[:400].replace('\n', ' | ')))
        rc = 2
    if not a.only and not os.environ.get('VERIF_NO_EVIDENCE'):
        write_evidence(prop, a, obls, meta, violations, undecided, kf_lines, time.time() - t0, pl, not_explored)
    n_proof = [o for o in obls if o.bound is None]
    print('%s tier=%s: %d obligations (%d unbounded, %d bounded), %d discharged, %d failed (%d known), %d undecided, %d not explored, %.1fs' % (
        prop, a.tier, len(obls), len(n_proof), len(obls) - len(n_proof), sum(o.status == 'discharged' for o in obls),
        sum(o.status == 'failed' for o in obls), len(kf_lines), len(undecided), len(not_explored), time.time() - t0))
    return rc


def bounded_refutation(prop, obls, snap, scratch):
    # ---- bounded stand-in for units that left the verifier's reach (rewritten handlers: not extractable / anchor lost) -------------
    # The real operator is swept natively against the executable transcription of its definition (tools/replaysearch.py REFS:
    # items {0,1,2}, length <= 4, three endings, parameters 0..3).  Only a REFUTATION is used: a disagreement is a concrete failing
    # input on the real code and turns the undecided obligation into a violation (labelled bounded); agreement proves nothing and
    # the obligation stays undecided.
    if prop != 'C02':
        return
    import replaysearch
    for o in obls:
        if o.status == 'undecided' and o.unit in replaysearch.REFS and (
                (o.engine == 'verus' and re.match(r'(not_extractable|anchor)', o.detail or '')) or
                (o.engine == 'syntactic' and o.id.endswith('.skeleton'))):
            w = replaysearch.verus_witness(o.unit, snap, scratch)
            if w and w.get('witness'):
                o.status = 'failed'
                o.bound = 'bounded stand-in (native sweep; the unit is no longer extractable for Verus): items {0,1,2}, length <= 4, 3 endings'
                o.detail = 'unit not extractable (%s); the bounded native sweep of the real operator disagrees with the definition: %s' % (o.detail[:200], json.dumps(w['witness']))
                o.extra['sweep'] = w
            elif w:
                o.detail += ' || bounded native sweep found no disagreement (%s): still undecided' % w.get('witness_search', '')


def self_test(prop, snap, scratch, pl):
    """thorough tier: every kept seeded change of this property that the Verus/syntactic engines caught when it was recorded is
    applied to a scratch copy and must still fail one of their obligations (guards against contracts that silently got weaker)"""
    out = []
    for mpath in sorted(glob.glob(os.path.join(VERIF, 'seeded', '*', 'meta.json'))):
        m = json.load(open(mpath))
        if m.get('breaks_property') != prop:
            continue
        names = [part.split('=', 1)[1] for l in m.get('check_output', []) if l.startswith('VIOLATION') for part in l.split() if part.startswith('obligation=')]
        expected = any(('.V.' in n or '.S.' in n) for n in names)
        d = os.path.join(scratch, 'st_' + m['seed'])
        shutil.copytree(snap, d)
        ap = subprocess.run(['git', 'apply', '--unsafe-paths', '--directory=' + d, os.path.join(os.path.dirname(mpath), 'patch.diff')],
                            cwd='/', capture_output=True, text=True)
        if ap.returncode != 0:
            ap = subprocess.run(['patch', '-p1', '-s', '-i', os.path.join(os.path.dirname(mpath), 'patch.diff')], cwd=d, capture_output=True, text=True)
        rec = {'seed': m['seed'], 'expected_detection': expected, 'detected': False, 'failed_obligations': []}
        if ap.returncode != 0:
            rec['error'] = 'patch does not apply to the current tree'
            rec['expected_detection'] = False
            out.append(rec)
            continue
        obls = []
        sc2 = os.path.join(scratch, 'stv_' + m['seed'])
        os.makedirs(sc2, exist_ok=True)
        if 'verus_units' in pl['engines']:
            o, _ = collect_verus_units(prop, d, sc2)
            obls += o
        if 'syntactic' in pl['engines']:
            import syntactic
            obls += syntactic.collect(prop, d)
        bounded_refutation(prop, obls, d, sc2)
        known = load_known()
        bad = [o.id for o in obls if o.status == 'failed' and not match_known(o, known, prop)]
        rec['detected'] = bool(bad)
        rec['failed_obligations'] = bad[:6]
        out.append(rec)
        shutil.rmtree(d, ignore_errors=True)
    return out


def write_evidence(prop, a, obls, meta, violations, undecided, kf_lines, wall, pl, not_explored=()):
    import plan
    proof_obls = [o for o in obls if o.bound is None and not o.known and o not in not_explored]
    bounded = [o for o in obls if o.bound is not None]
    backends = {}
    for o in obls:
        b = backends.setdefault(o.backend, {'obligations': 0, 'discharged': 0, 'solver_s': 0.0})
        b['obligations'] += 1
        b['discharged'] += o.status == 'discharged'
        b['solver_s'] = round(b['solver_s'] + o.seconds, 3)
    samples = [o.to_json() for o in obls[:3]]
    for o in obls[:3]:
        gen = o.extra.get('generated')
        if gen and o.fn and os.path.exists(gen):
            m = re.search(r'fn %s\(.*?\n}\n' % re.escape(o.fn), open(gen).read(), flags=re.S)
            if m:
                samples[obls.index(o)]['text'] = m.group(0)[:3000]
    ev = {
        'property_id': prop,
        'tier': a.tier,
        'seed': int(os.environ.get('VERIF_SEED', '0') or 0),
        'level': pl.get('level', 'proof'),
        'coverage': {
            'explanation': pl.get('explanation', 'see MANIFEST.json level_claimed.text'),
            'obligations': len(proof_obls),
            'discharged': sum(o.status == 'discharged' for o in proof_obls),
            'checker_cmd': pl.get('checker_cmd', 'verus <unit>.rs --output-json --time --rlimit %s ; cargo kani --harness <h>' % VERUS_RLIMIT),
            'trusted_base': plan.TRUSTED_BASE + pl.get('trusted_extra', []),
            'samples': samples,
            'obligation_list': [o.to_json() for o in obls],
            'bounded_stand_ins': [o.to_json() for o in bounded],
            'bounded_note': 'bounded obligations are NOT counted in obligations/discharged',
            'by_backend': backends,
            'functions_under_contract': meta.get('functions_under_contract', []),
            'units': meta.get('units', []),
            'not_under_contract': meta.get('not_under_contract', []),
            'must_fail_twins': {'total': meta.get('twins_total', 0), 'rejected': meta.get('twins_rejected', 0)},
            'known_findings_open': kf_lines,
            'undecided': [o.id for o in undecided],
            'not_explored': [{'obligation': o.id, 'reason': o.detail} for o in not_explored],
            'not_explored_note': 'harnesses that hit the cbmc time / memory cap in this run: nothing is claimed for them, they are not counted in obligations/discharged',
            'kani': meta.get('kani', {}),
            'self_test_seeded_changes': meta.get('self_test', []),
            'exhaustive': False,
        },
        'assumptions': plan.ASSUMPTIONS + pl.get('assumptions_extra', []) + sorted(set(meta.get('assumption_scan', []))),
        'wall_s': round(wall, 2),
        'violations': len(violations),
    }
    os.makedirs(os.path.join(VERIF, 'evidence'), exist_ok=True)
    json.dump(ev, open(os.path.join(VERIF, 'evidence', prop + '.json'), 'w'), indent=1)
