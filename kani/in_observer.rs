// K-refine obligations for Observer (L1): the real methods, run on a real Observer built in each abstract pre-state
// (next/error/complete/teardown slot present or not - concrete shape, symbolic payload), against ObsModel::obs_step.
// Loop-free: each harness is a complete proof for its pre-state; the 16 pre-states are enumerated.

pub(crate) fn build(log: &'static Log, s: ObsState) -> Observer<'static, u8> {
  let ob = rec_observer(log);
  if s.t {
    ob.set_on_unsubscribe(move || log.push(EV_T));
  }
  if !s.n {
    ob.fn_next.clear();
  }
  if !s.e {
    ob.fn_error.clear();
  }
  if !s.c {
    ob.fn_complete.clear();
  }
  ob
}

pub(crate) fn abs(ob: &Observer<'static, u8>) -> ObsState {
  ObsState {
    n: ob.fn_next.exists(),
    e: ob.fn_error.exists(),
    c: ob.fn_complete.exists(),
    t: ob.fn_on_unsubscribe.read().unwrap().is_some(),
  }
}

fn run(ob: &Observer<'static, u8>, call: ObsCall) {
  match call {
    ObsCall::Next(x) => ob.next(x),
    ObsCall::Error(id) => ob.error(err(id)),
    ObsCall::Complete => ob.complete(),
    ObsCall::Unsubscribe => ob.unsubscribe(),
  }
}

fn refine(s: ObsState, call: ObsCall) {
  let log = Log::new();
  let ob = build(log, s);
  assert!(abs(&ob) == s, "harness: pre-state not established");
  assert!(ob.is_subscribed() == obs_is_subscribed(s), "obs.is_subscribed: differs from the model");
  run(&ob, call);
  let (post, emitted) = obs_step(s, call);
  if emitted == 0 {
    assert!(log.len() == 0, "obs.emit: a callback ran although the contract says none");
  } else {
    assert!(log.len() == 1 && log.get(0) == emitted, "obs.emit: callback trace differs from the contract");
  }
  let got = abs(&ob);
  // C17 direction first (a slot the contract empties must not keep its closure), then equality (C01 / C05)
  assert!(!(got.n && !post.n), "obs.post: next slot differs from the contract: the callback is still owned, not released");
  assert!(got.n == post.n, "obs.post: next slot differs from the contract");
  assert!(!(got.e && !post.e), "obs.post: error slot differs from the contract: the callback is still owned, not released");
  assert!(got.e == post.e, "obs.post: error slot differs from the contract");
  assert!(!(got.c && !post.c), "obs.post: complete slot differs from the contract: the callback is still owned, not released");
  assert!(got.c == post.c, "obs.post: complete slot differs from the contract");
  assert!(got.t == post.t, "obs.post: teardown slot differs from the contract");
  assert!(ob.is_subscribed() == obs_is_subscribed(post), "obs.is_subscribed(post): differs from the model");
  // a clone shares the slots (frame: clones observe the same state)
  let cl = ob.clone();
  assert!(abs(&cl) == got, "obs.clone: clone does not share the slots");
  kani::cover!(true, "harness reaches its end");
}

macro_rules! obs_h {
  ($name:ident, $n:expr, $e:expr, $c:expr, $t:expr, next) => {
    #[kani::proof]
    fn $name() {
      refine(ObsState { n: $n, e: $e, c: $c, t: $t }, ObsCall::Next(kani::any()));
    }
  };
  ($name:ident, $n:expr, $e:expr, $c:expr, $t:expr, error) => {
    #[kani::proof]
    fn $name() {
      refine(ObsState { n: $n, e: $e, c: $c, t: $t }, ObsCall::Error(kani::any()));
    }
  };
  ($name:ident, $n:expr, $e:expr, $c:expr, $t:expr, complete) => {
    #[kani::proof]
    fn $name() {
      refine(ObsState { n: $n, e: $e, c: $c, t: $t }, ObsCall::Complete);
    }
  };
  ($name:ident, $n:expr, $e:expr, $c:expr, $t:expr, unsubscribe) => {
    #[kani::proof]
    fn $name() {
      refine(ObsState { n: $n, e: $e, c: $c, t: $t }, ObsCall::Unsubscribe);
    }
  };
}

macro_rules! obs_all_states {
  ($m:ident, $($name:ident = ($n:expr, $e:expr, $c:expr, $t:expr)),* $(,)?) => { $( obs_h!($name, $n, $e, $c, $t, $m); )* };
}

obs_all_states!(next,
  k_obs_next__1110 = (true, true, true, false), k_obs_next__1111 = (true, true, true, true),
  k_obs_next__0000 = (false, false, false, false), k_obs_next__0001 = (false, false, false, true),
  k_obs_next__0110 = (false, true, true, false), k_obs_next__1000 = (true, false, false, false),
  k_obs_next__1010 = (true, false, true, false), k_obs_next__1100 = (true, true, false, false),
  k_obs_next__0010 = (false, false, true, false), k_obs_next__0100 = (false, true, false, false),
  k_obs_next__0111 = (false, true, true, true), k_obs_next__1001 = (true, false, false, true),
  k_obs_next__1011 = (true, false, true, true), k_obs_next__1101 = (true, true, false, true),
  k_obs_next__0011 = (false, false, true, true), k_obs_next__0101 = (false, true, false, true),
);
obs_all_states!(error,
  k_obs_error__1110 = (true, true, true, false), k_obs_error__1111 = (true, true, true, true),
  k_obs_error__0000 = (false, false, false, false), k_obs_error__0001 = (false, false, false, true),
  k_obs_error__0110 = (false, true, true, false), k_obs_error__1000 = (true, false, false, false),
  k_obs_error__1010 = (true, false, true, false), k_obs_error__1100 = (true, true, false, false),
  k_obs_error__0010 = (false, false, true, false), k_obs_error__0100 = (false, true, false, false),
  k_obs_error__0111 = (false, true, true, true), k_obs_error__1001 = (true, false, false, true),
  k_obs_error__1011 = (true, false, true, true), k_obs_error__1101 = (true, true, false, true),
  k_obs_error__0011 = (false, false, true, true), k_obs_error__0101 = (false, true, false, true),
);
obs_all_states!(complete,
  k_obs_complete__1110 = (true, true, true, false), k_obs_complete__1111 = (true, true, true, true),
  k_obs_complete__0000 = (false, false, false, false), k_obs_complete__0001 = (false, false, false, true),
  k_obs_complete__0110 = (false, true, true, false), k_obs_complete__1000 = (true, false, false, false),
  k_obs_complete__1010 = (true, false, true, false), k_obs_complete__1100 = (true, true, false, false),
  k_obs_complete__0010 = (false, false, true, false), k_obs_complete__0100 = (false, true, false, false),
  k_obs_complete__0111 = (false, true, true, true), k_obs_complete__1001 = (true, false, false, true),
  k_obs_complete__1011 = (true, false, true, true), k_obs_complete__1101 = (true, true, false, true),
  k_obs_complete__0011 = (false, false, true, true), k_obs_complete__0101 = (false, true, false, true),
);
obs_all_states!(unsubscribe,
  k_obs_unsubscribe__1110 = (true, true, true, false), k_obs_unsubscribe__1111 = (true, true, true, true),
  k_obs_unsubscribe__0000 = (false, false, false, false), k_obs_unsubscribe__0001 = (false, false, false, true),
  k_obs_unsubscribe__0110 = (false, true, true, false), k_obs_unsubscribe__1000 = (true, false, false, false),
  k_obs_unsubscribe__1010 = (true, false, true, false), k_obs_unsubscribe__1100 = (true, true, false, false),
  k_obs_unsubscribe__0010 = (false, false, true, false), k_obs_unsubscribe__0100 = (false, true, false, false),
  k_obs_unsubscribe__0111 = (false, true, true, true), k_obs_unsubscribe__1001 = (true, false, false, true),
  k_obs_unsubscribe__1011 = (true, false, true, true), k_obs_unsubscribe__1101 = (true, true, false, true),
  k_obs_unsubscribe__0011 = (false, false, true, true), k_obs_unsubscribe__0101 = (false, true, false, true),
);

// ---- re-entrant variants (depth 1): the callback calls back into the same observer -------------------------------------
// inside next: unsubscribe own observer, then the source keeps emitting
#[kani::proof]
fn k_obs_reenter__unsub_in_next() {
  let log = Log::new();
  let slot: &'static Slot<Observer<'static, u8>> = Slot::new();
  let ob: Observer<'static, u8> = Observer::new(
    move |x: u8| {
      log.push(EV_N | x as u32);
      if let Some(o) = slot.get() {
        o.unsubscribe();
      }
    },
    move |e: RxError| log.push(EV_E | err_id(&e)),
    move || log.push(EV_C),
  );
  ob.set_on_unsubscribe(move || log.push(EV_T));
  slot.set(ob.clone());
  let a: u8 = kani::any();
  ob.next(a);
  ob.next(kani::any());
  ob.complete();
  ob.error(err(kani::any()));
  assert!(log.is(&[EV_N | a as u32, EV_T]), "obs.reenter: events delivered after unsubscribe from inside next");
  assert!(!ob.is_subscribed(), "obs.reenter: still subscribed");
  kani::cover!(true, "harness reaches its end");
}

// inside the teardown: unsubscribe again (idempotence under re-entrancy) and try to emit
#[kani::proof]
fn k_obs_reenter__unsub_in_teardown() {
  let log = Log::new();
  let slot: &'static Slot<Observer<'static, u8>> = Slot::new();
  let ob = rec_observer(log);
  ob.set_on_unsubscribe(move || {
    log.push(EV_T);
    if let Some(o) = slot.get() {
      o.unsubscribe();
      o.next(7);
      o.complete();
    }
  });
  slot.set(ob.clone());
  ob.unsubscribe();
  ob.unsubscribe();
  assert!(log.is(&[EV_T]), "obs.reenter: teardown must run exactly once and nothing may be delivered from inside it");
  kani::cover!(true, "harness reaches its end");
}

// inside complete: the callback tries next/error/complete again on its own observer
#[kani::proof]
fn k_obs_reenter__emit_in_complete() {
  let log = Log::new();
  let again = Flag::new();
  let slot: &'static Slot<Observer<'static, u8>> = Slot::new();
  // both orders: repeating the SAME terminal first (its own slot may still be present) clears the other slots as a side effect and
  // would hide a next/error slot that is still armed; trying the OTHER events first would hide a complete slot that is still armed
  let same_first: bool = kani::any();
  let ob: Observer<'static, u8> = Observer::new(
    move |x: u8| log.push(EV_N | x as u32),
    move |e: RxError| log.push(EV_E | err_id(&e)),
    move || {
      log.push(EV_C);
      // re-enter ONCE (a source that signals again from inside the subscriber's terminal callback); the guard keeps the harness
      // finite even if the library wrongly delivers the second terminal
      if !again.get() {
        again.set(true);
        if let Some(o) = slot.get() {
          if same_first {
            o.complete();
            o.next(1);
            o.error(err(2));
          } else {
            o.next(1);
            o.error(err(2));
            o.complete();
          }
        }
      }
    },
  );
  slot.set(ob.clone());
  ob.complete();
  assert!(log.is(&[EV_C]), "obs.reenter: something was delivered from inside the complete callback");
  kani::cover!(true, "harness reaches its end");
}

#[kani::proof]
fn k_obs_reenter__emit_in_error() {
  let log = Log::new();
  let again = Flag::new();
  let slot: &'static Slot<Observer<'static, u8>> = Slot::new();
  let same_first: bool = kani::any(); // see k_obs_reenter__emit_in_complete
  let ob: Observer<'static, u8> = Observer::new(
    move |x: u8| log.push(EV_N | x as u32),
    move |e: RxError| {
      log.push(EV_E | err_id(&e));
      if !again.get() {
        again.set(true);
        if let Some(o) = slot.get() {
          if same_first {
            o.error(err(2));
            o.next(1);
            o.complete();
          } else {
            o.next(1);
            o.complete();
            o.error(err(2));
          }
        }
      }
    },
    move || log.push(EV_C),
  );
  slot.set(ob.clone());
  let id: u8 = kani::any();
  ob.error(err(id));
  assert!(log.is(&[EV_E | id as u32]), "obs.reenter: something was delivered from inside the error callback");
  kani::cover!(true, "harness reaches its end");
}

// ---- clones of an Observer are handles on ONE set of slots, in both directions and also for what is installed after the clone was
// taken (StreamController::new and the subjects install the teardown on the handle they are given, while the party that later calls
// unsubscribe() holds a clone taken earlier)
#[kani::proof]
fn k_obs_clone__shares_every_slot_also_for_later_changes() {
  let log = Log::new();
  let ob = rec_observer(log);
  let early = ob.clone();
  ob.set_on_unsubscribe(move || log.push(EV_T));
  assert!(abs(&early).t, "obs.clone: a teardown installed after a clone was taken is not visible through that clone");
  let x: u8 = kani::any();
  early.next(x);
  early.unsubscribe();
  assert!(log.is(&[EV_N | x as u32, EV_T]), "obs.clone: unsubscribing through an earlier clone did not run the teardown installed later (once)");
  assert!(!ob.is_subscribed() && !abs(&ob).t, "obs.clone: the original still holds slots after a clone unsubscribed");
  kani::cover!(true, "harness reaches its end");
}
