// K-refine obligations for StreamController (L2) against the contract table of DESIGN A.3 / models/prelude.rs SctlModel.
// Pre-states are enumerated (concrete shape): subscriber live or already terminated, 0..2 registered upstream observers,
// on_finalize set or not, both iteration orders of the upstream map.  Payloads are symbolic.
// BOUND: at most 2 registered upstream observers (unwind 5 covers the facade's map loops for <= 2 entries).

fn kani_any_bool() -> bool {
  kani::any()
}

pub(crate) struct Rig {
  pub log: &'static Log,
  pub sub: Observer<'static, u8>,
  pub sctl: StreamController<'static, u8>,
  pub u0: Option<Observer<'static, u8>>,
  pub u1: Option<Observer<'static, u8>>,
}

/// an upstream observer whose handlers forward to the controller the way operator handlers do; it gets a teardown that logs
/// EV_U|i, so that "this source was told to stop" is observable.  (No Vec/loops in the rig: a Vec of observers made CBMC's
/// drop-glue exploration blow up.)
fn upstream(log: &'static Log, sctl: &StreamController<'static, u8>, i: u32) -> Observer<'static, u8> {
  let s1 = sctl.clone();
  let s2 = sctl.clone();
  let s3 = sctl.clone();
  let o = sctl.new_observer(
    move |_serial, x: u8| s1.sink_next(x),
    move |_serial, e| s2.sink_error(e),
    move |serial| s3.sink_complete(&serial),
  );
  o.set_on_unsubscribe(move || log.push(EV_U | i));
  o
}

pub(crate) fn rig(k: usize, fin: bool, rev: bool) -> Rig {
  crate::verif_sync::REVERSE_ITER.store(rev, std::sync::atomic::Ordering::Relaxed);
  let log = Log::new();
  let sub = rec_observer(log);
  let sctl = StreamController::new(sub.clone());
  if fin {
    sctl.set_on_finalize(move || log.push(EV_F));
  }
  let u0 = if k >= 1 { Some(upstream(log, &sctl, 0)) } else { None };
  let u1 = if k >= 2 { Some(upstream(log, &sctl, 1)) } else { None };
  Rig { log, sub, sctl, u0, u1 }
}

impl Rig {
  fn up0(&self) -> &Observer<'static, u8> {
    self.u0.as_ref().unwrap()
  }
  fn up1(&self) -> &Observer<'static, u8> {
    self.u1.as_ref().unwrap()
  }
  fn map_len(&self) -> usize {
    self.sctl.unscribers.read().unwrap().len()
  }
  fn fin_set(&self) -> bool {
    self.sctl.on_finalize.read().unwrap().is_some()
  }
  fn assert_up_dead(&self, o: &Observer<'static, u8>, i: u32) {
    assert!(!o.is_subscribed(), "sctl.end: an upstream observer is still subscribed after the subscription ended");
    assert!(self.log.count(EV_U | i) == 1, "sctl.end: upstream teardown did not run exactly once");
  }
  /// C06 + C17 post-state of every ending: all upstream observers unsubscribed exactly once, map empty, on_finalize ran once
  /// (iff it was set) and was dropped, and the subscriber holds NO closure any more (all four slots empty)
  fn assert_ended(&self, k: usize, fin: bool) {
    // A failed Rust assert ends the path, so the first failing clause would mask the others.  The C06 clauses (teardown) and the C17
    // clauses (release) are therefore checked in BOTH orders (nondeterministic choice made after all library code has run).
    if kani_any_bool() {
      self.assert_torn_down(k, fin);
      self.assert_released();
    } else {
      self.assert_released();
      self.assert_torn_down(k, fin);
    }
  }
  /// C06 post-state of every ending: all upstream observers unsubscribed exactly once, map empty, on_finalize ran once (iff set)
  fn assert_torn_down(&self, k: usize, fin: bool) {
    if k >= 1 {
      self.assert_up_dead(self.up0(), 0);
    }
    if k >= 2 {
      self.assert_up_dead(self.up1(), 1);
    }
    assert!(self.map_len() == 0, "sctl.end: upstream map not empty");
    assert!(self.log.count(EV_F) == if fin { 1 } else { 0 }, "sctl.end: on_finalize did not run exactly once");
    assert!(!self.sctl.is_subscribed(), "sctl.end: still subscribed");
  }
  /// C17 post-state of every ending: the subscriber holds NO closure any more (all four slots empty), on_finalize was dropped
  fn assert_released(&self) {
    assert!(!self.fin_set(), "sctl.released: on_finalize closure still held");
    let s = crate::observer::verif_k::abs(&self.sub);
    assert!(!s.n && !s.e && !s.c, "sctl.released: subscriber callback slot still held after the end");
    assert!(!s.t, "sctl.released: subscriber teardown closure (which owns the controller) still held after the end");
  }
  fn assert_up(&self, o: &Observer<'static, u8>, i: u32, live: bool) {
    assert!(o.is_subscribed() == live, "sctl.frame: liveness of an upstream observer differs from the contract");
    if live {
      assert!(self.log.count(EV_U | i) == 0, "sctl.frame: teardown of a live upstream ran");
    } else {
      assert!(self.log.count(EV_U | i) == 1, "sctl.upstream: teardown of a removed upstream did not run exactly once");
    }
  }
  fn assert_live(&self, k_live: &[bool]) {
    let mut n = 0;
    if k_live.len() >= 1 {
      self.assert_up(self.up0(), 0, k_live[0]);
      if k_live[0] {
        n += 1;
      }
    }
    if k_live.len() >= 2 {
      self.assert_up(self.up1(), 1, k_live[1]);
      if k_live[1] {
        n += 1;
      }
    }
    assert!(self.map_len() == n, "sctl.frame: upstream map size differs from the contract");
    assert!(self.sctl.is_subscribed(), "sctl.frame: subscriber no longer subscribed");
    assert!(self.log.count(EV_F) == 0, "sctl.frame: on_finalize ran while live");
  }
  fn downstream(&self) -> (usize, u32) {
    self.log.downstream()
  }
}

macro_rules! sctl_h {
  ($name:ident, $k:expr, $fin:expr, $rev:expr, |$r:ident| $body:block) => {
    #[kani::proof]
    #[kani::unwind(3)]
    fn $name() {
      let $r = rig($k, $fin, $rev);
      $body;
      kani::cover!(true, "harness reaches its end");
    }
  };
}

// ---- sink_next ---------------------------------------------------------------------------------------------------
sctl_h!(k_sctl_next__live_u1, 1, true, false, |r| {
  let x: u8 = kani::any();
  r.sctl.sink_next(x);
  assert!(r.log.is(&[EV_N | x as u32]), "sctl.sink_next: downstream trace differs");
  r.assert_live(&[true]);
});
sctl_h!(k_sctl_next__live_u2, 2, false, false, |r| {
  let x: u8 = kani::any();
  let y: u8 = kani::any();
  r.sctl.sink_next(x);
  r.up1().next(y); // through the upstream observer (its handler forwards)
  assert!(r.log.is(&[EV_N | x as u32, EV_N | y as u32]), "sctl.sink_next: downstream trace differs");
  r.assert_live(&[true, true]);
});
// subscriber already terminated behind the controller's back: the next sink call must finalize (tear everything down)
sctl_h!(k_sctl_next__dead_u2, 2, true, false, |r| {
  r.sub.complete();
  r.sctl.sink_next(kani::any());
  assert!(r.downstream() == (1, EV_C), "sctl.sink_next(dead): something was delivered");
  r.assert_ended(2, true);
});

// ---- sink_error ----------------------------------------------------------------------------------------------------
sctl_h!(k_sctl_error__live_u0, 0, false, false, |r| {
  let id: u8 = kani::any();
  r.sctl.sink_error(err(id));
  assert!(r.downstream() == (1, EV_E | id as u32), "sctl.sink_error: downstream trace differs");
  r.assert_ended(0, false);
});
sctl_h!(k_sctl_error__live_u1_fin, 1, true, false, |r| {
  let id: u8 = kani::any();
  r.sctl.sink_error(err(id));
  assert!(r.downstream() == (1, EV_E | id as u32), "sctl.sink_error: downstream trace differs");
  assert!(r.log.get(0) == (EV_E | id as u32), "sctl.sink_error: the error is not the first thing that happens");
  r.assert_ended(1, true);
  // nothing after the end
  r.sctl.sink_next(1);
  r.sctl.sink_error(err(2));
  r.sctl.sink_complete(&0);
  r.sctl.sink_complete_force();
  r.up0().next(3);
  assert!(r.downstream() == (1, EV_E | id as u32), "sctl.after_end: an event was delivered after the terminal");
  r.assert_ended(1, true);
});
sctl_h!(k_sctl_error__live_u2, 2, false, false, |r| {
  let id: u8 = kani::any();
  r.up0().error(err(id)); // an erroring input: its sibling must be torn down
  assert!(r.downstream() == (1, EV_E | id as u32), "sctl.sink_error: downstream trace differs");
  r.assert_ended(2, false);
});
sctl_h!(k_sctl_error__live_u2_rev, 2, true, true, |r| {
  let id: u8 = kani::any();
  r.up1().error(err(id));
  assert!(r.downstream() == (1, EV_E | id as u32), "sctl.sink_error: downstream trace differs");
  r.assert_ended(2, true);
});

// ---- sink_complete --------------------------------------------------------------------------------------------------
sctl_h!(k_sctl_complete__last_u1_fin, 1, true, false, |r| {
  r.sctl.sink_complete(&0);
  assert!(r.downstream() == (1, EV_C), "sctl.sink_complete(last): complete not delivered exactly once");
  r.assert_ended(1, true);
});
// an operator that has all it needs calls sink_complete(serial) while the source is still live (take_while, contains, ...):
// the source must be unsubscribed (C06)
sctl_h!(k_sctl_complete__last_u1_source_live, 1, false, false, |r| {
  let x: u8 = kani::any();
  r.sctl.sink_next(x);
  r.sctl.sink_complete(&0);
  assert!(r.log.get(0) == (EV_N | x as u32) && r.downstream() == (2, EV_C), "sctl.sink_complete: downstream trace differs");
  r.assert_ended(1, false);
  r.up0().next(9);
  assert!(r.downstream() == (2, EV_C), "sctl.after_end: an event was delivered after the terminal");
});
sctl_h!(k_sctl_complete__first_of_u2, 2, true, false, |r| {
  r.sctl.sink_complete(&0);
  assert!(r.downstream() == (0, 0), "sctl.sink_complete(non-last): something was delivered");
  r.assert_live(&[false, true]); // the completed upstream is unsubscribed and removed, the other untouched
  let x: u8 = kani::any();
  r.up1().next(x);
  r.up1().complete();
  assert!(r.downstream() == (2, EV_C), "sctl.sink_complete(last of 2): downstream trace differs");
  r.assert_ended(2, true);
});
sctl_h!(k_sctl_complete__second_of_u2_rev, 2, false, true, |r| {
  r.up1().complete();
  assert!(r.downstream() == (0, 0), "sctl.sink_complete(non-last): something was delivered");
  r.assert_live(&[true, false]);
});
sctl_h!(k_sctl_complete__unknown_serial_u1, 1, false, false, |r| {
  r.sctl.sink_complete(&7);
  assert!(r.downstream() == (0, 0), "sctl.sink_complete(unknown serial): something was delivered");
  r.assert_live(&[true]);
});
sctl_h!(k_sctl_complete__dead_u1, 1, true, false, |r| {
  r.sub.error(err(1));
  r.sctl.sink_complete(&0);
  assert!(r.downstream() == (1, EV_E | 1), "sctl.sink_complete(dead): something was delivered");
  r.assert_ended(1, true);
});

// ---- sink_complete_force / upstream_abort_observe / finalize / is_subscribed -----------------------------------------------
sctl_h!(k_sctl_force__live_u2_fin, 2, true, false, |r| {
  r.sctl.sink_complete_force();
  assert!(r.downstream() == (1, EV_C), "sctl.sink_complete_force: complete not delivered exactly once");
  r.assert_ended(2, true);
});
sctl_h!(k_sctl_force__dead_u1, 1, false, false, |r| {
  r.sub.complete();
  r.sctl.sink_complete_force();
  assert!(r.downstream() == (1, EV_C), "sctl.sink_complete_force(dead): delivered again");
  r.assert_ended(1, false);
});
sctl_h!(k_sctl_abort__one_of_u2, 2, true, false, |r| {
  r.sctl.upstream_abort_observe(&1);
  assert!(r.downstream() == (0, 0), "sctl.upstream_abort_observe: something was delivered");
  r.assert_live(&[true, false]);
  r.up1().next(5); // amb's loser: its next emission is not delivered
  assert!(r.downstream() == (0, 0), "sctl.upstream_abort_observe: an aborted upstream still delivers");
  r.sctl.upstream_abort_observe(&1); // idempotent
  r.assert_live(&[true, false]);
});
sctl_h!(k_sctl_finalize__live_u2_fin, 2, true, false, |r| {
  r.sctl.finalize();
  assert!(r.downstream() == (0, 0), "sctl.finalize: something was delivered");
  r.assert_ended(2, true);
  r.sctl.finalize(); // idempotent
  r.assert_ended(2, true);
});
sctl_h!(k_sctl_finalize__live_u2_rev, 2, false, true, |r| {
  r.sctl.finalize();
  r.assert_ended(2, false);
});
// the downstream unsubscribes (Subscription::unsubscribe -> Observer::unsubscribe -> teardown -> finalize)
sctl_h!(k_sctl_unsub__live_u2_fin, 2, true, false, |r| {
  r.sub.unsubscribe();
  assert!(r.downstream() == (0, 0), "sctl.unsubscribe: something was delivered");
  r.assert_ended(2, true);
  r.up0().next(1);
  r.up1().complete();
  r.sctl.sink_next(2);
  assert!(r.downstream() == (0, 0), "sctl.after_unsubscribe: an event was delivered after unsubscribe");
  r.sub.unsubscribe();
  r.assert_ended(2, true);
});
sctl_h!(k_sctl_unsub__live_u1, 1, false, false, |r| {
  r.sub.unsubscribe();
  r.assert_ended(1, false);
});

// ---- re-entrancy: the downstream callback unsubscribes its own subscription from inside next ------------------------------
#[kani::proof]
#[kani::unwind(3)]
fn k_sctl_reenter__unsub_in_downstream_next() {
  let log = Log::new();
  let slot: &'static Slot<Observer<'static, u8>> = Slot::new();
  let sub: Observer<'static, u8> = Observer::new(
    move |x: u8| {
      log.push(EV_N | x as u32);
      if let Some(o) = slot.get() {
        o.unsubscribe();
      }
    },
    move |e: RxError| log.push(EV_E | err_id(&e)),
    move || log.push(EV_C),
  );
  slot.set(sub.clone());
  let sctl = StreamController::new(sub.clone());
  sctl.set_on_finalize(move || log.push(EV_F));
  let s1 = sctl.clone();
  let s2 = sctl.clone();
  let s3 = sctl.clone();
  let up = sctl.new_observer(move |_s, x: u8| s1.sink_next(x), move |_s, e| s2.sink_error(e), move |s| s3.sink_complete(&s));
  up.set_on_unsubscribe(move || log.push(EV_U));
  let x: u8 = kani::any();
  up.next(x);
  up.next(kani::any());
  up.complete();
  assert!(log.is(&[EV_N | x as u32, EV_U, EV_F]), "sctl.reenter: trace differs (delivery after the downstream unsubscribed itself, or teardown not run once)");
  assert!(!up.is_subscribed(), "sctl.reenter: upstream still subscribed");
  assert!(sctl.unscribers.read().unwrap().len() == 0, "sctl.reenter: map not empty");
  kani::cover!(true, "harness reaches its end");
}

// ---- new_observer: keys of the upstream map are never reused while an earlier upstream is still registered --------------------
// (flat_map / switch_on_next / retry register further upstreams after earlier ones have completed: a reused key would overwrite the
// unsubscribe action of a live upstream, which then is never told to stop and is mistaken for the completed one)
sctl_h!(k_sctl_new_observer__serial_not_reused_after_removal, 2, false, false, |r| {
  r.up0().complete(); // -> sink_complete(&0): u0 removed, u1 still registered
  r.assert_live(&[false, true]);
  let u2 = upstream(r.log, &r.sctl, 2);
  assert!(r.map_len() == 2, "sctl.frame: upstream map size differs from the contract (a new upstream replaced a registered one)");
  assert!(r.up1().is_subscribed() && u2.is_subscribed(), "sctl.frame: liveness of an upstream observer differs from the contract");
  r.up1().complete(); // one of two completes: the stream must stay open for the other
  assert!(r.sctl.is_subscribed(), "sctl.sink_complete: the stream ended although an upstream is still registered");
  assert!(r.downstream() == (0, 0), "sctl.sink_complete: something was delivered although an upstream is still registered");
  r.sctl.finalize();
  assert!(!u2.is_subscribed(), "sctl.end: an upstream observer is still subscribed after the subscription ended");
  assert!(r.log.count(EV_U | 2) == 1, "sctl.end: upstream teardown did not run exactly once");
  assert!(r.map_len() == 0, "sctl.end: upstream map not empty");
});

// ---- new_observer: every upstream observer hands EVERY event to the handlers it was created with ------------------------------
// (recovery operators - retry, on_error_resume_next - see one upstream error per attempt through the same controller)
#[kani::proof]
#[kani::unwind(3)]
fn k_sctl_new_observer__every_upstream_error_reaches_its_handler() {
  let log = Log::new();
  let sub = rec_observer(log);
  let sctl = StreamController::new(sub.clone());
  let a = sctl.new_observer(move |_s, _x: u8| {}, move |_s, e| log.push(EV_E | err_id(&e)), move |_s| {});
  let b = sctl.new_observer(move |_s, _x: u8| {}, move |_s, e| log.push(EV_E | 0x1000 | err_id(&e)), move |_s| {});
  let (i, j): (u8, u8) = (kani::any(), kani::any());
  a.error(err(i));
  b.error(err(j));
  assert!(log.is(&[EV_E | i as u32, EV_E | 0x1000 | j as u32]), "sctl.new_observer: an upstream error did not reach the error handler the observer was created with, once, unchanged");
  kani::cover!(true, "harness reaches its end");
}

// ---- new_observer on a controller that has already ended: the observer is born ended (not subscribed, nothing registered), so
// that Observable::inner_subscribe does not run any source on its behalf.  (switch_on_next / flat_map / concat / retry build upstream
// observers lazily, possibly after an earlier input has ended the stream synchronously; a live observer created then would keep a
// hot source, and the operator closures in between, attached until that source next emits.)
sctl_h!(k_sctl_new_observer__on_an_ended_controller_is_born_ended, 0, false, false, |r| {
  r.sctl.finalize();
  let u = upstream(r.log, &r.sctl, 0);
  assert!(!u.is_subscribed(), "sctl.end: an upstream observer created after the subscription ended is subscribed");
  assert!(r.map_len() == 0, "sctl.end: upstream map not empty");
  u.next(kani::any());
  u.complete();
  assert!(r.downstream() == (0, 0), "sctl.after_end: an event was delivered after the end");
});
