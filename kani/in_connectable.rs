// K-refine / bounded call sequences for the connectables publish / ref_count / replay (C13), real types, hot instrumented
// source (counts its subscriptions, exposes its observer).  BOUND: <= 2 subscribers, call sequences of length <= 6, unwind 4.
use crate::prelude::*;

pub(crate) const EV_S: u32 = 0x900; // the source was subscribed

/// hot source: counts subscriptions (EV_S), exposes the observer of the latest subscription, logs its teardown (EV_T)
fn counted_source(slot: &'static Slot<Observer<'static, u8>>, slog: &'static Log) -> Observable<'static, u8> {
  Observable::create(move |s: Observer<'static, u8>| {
    slog.push(EV_S);
    s.set_on_unsubscribe(move || slog.push(EV_T));
    slot.set(s);
  })
}

fn attach(o: &Observable<'static, u8>, log: &'static Log) -> Subscription<'static> {
  o.subscribe(
    move |x: u8| log.push(EV_N | x as u32),
    move |e: RxError| log.push(EV_E | err_id(&e)),
    move || log.push(EV_C),
  )
}

#[kani::proof]
#[kani::unwind(4)]
fn k_conn_publish__connect_shares_one_subscription() {
  let slot: &'static Slot<Observer<'static, u8>> = Slot::new();
  let slog = Log::new();
  let l1 = Log::new();
  let l2 = Log::new();
  let p = counted_source(slot, slog).publish();
  let o = p.observable();
  let _s1 = attach(&o, l1);
  let _s2 = attach(&o, l2);
  assert!(slog.count(EV_S) == 0, "conn.publish: the source was subscribed before connect()");
  let conn = p.connect();
  assert!(slog.count(EV_S) == 1, "conn.publish: connect() did not subscribe the source exactly once");
  let x: u8 = kani::any();
  slot.get().unwrap().next(x);
  assert!(l1.is(&[EV_N | x as u32]) && l2.is(&[EV_N | x as u32]), "conn.publish: subscribers present at connect did not see the same item once");
  conn.unsubscribe();
  assert!(!slot.get().unwrap().is_subscribed(), "conn.publish: unsubscribing the connection did not stop the source");
  slot.get().unwrap().next(kani::any());
  assert!(l1.len() == 1 && l2.len() == 1, "conn.publish: items delivered after the connection was unsubscribed");
  kani::cover!(true, "harness reaches its end");
}

#[kani::proof]
#[kani::unwind(4)]
fn k_conn_refcount__first_in_last_out() {
  let slot: &'static Slot<Observer<'static, u8>> = Slot::new();
  let slog = Log::new();
  let l1 = Log::new();
  let l2 = Log::new();
  let rc = counted_source(slot, slog).ref_count();
  let o = rc.observable();
  assert!(slog.count(EV_S) == 0, "conn.ref_count: the source was subscribed before the first subscriber");
  let s1 = attach(&o, l1);
  assert!(slog.count(EV_S) == 1, "conn.ref_count: the first subscriber did not connect the source exactly once");
  let s2 = attach(&o, l2);
  assert!(slog.count(EV_S) == 1, "conn.ref_count: a second source subscription was made");
  let x: u8 = kani::any();
  slot.get().unwrap().next(x);
  assert!(l1.is(&[EV_N | x as u32]) && l2.is(&[EV_N | x as u32]), "conn.ref_count: subscribers did not see the same item once");
  s1.unsubscribe();
  assert!(slot.get().unwrap().is_subscribed(), "conn.ref_count: the source was stopped while a subscriber remained");
  s2.unsubscribe();
  assert!(!slot.get().unwrap().is_subscribed(), "conn.ref_count: the last subscriber left but the source is still subscribed");
  assert!(slog.count(EV_T) == 1, "conn.ref_count: the source teardown did not run exactly once");
  kani::cover!(true, "harness reaches its end");
}

// PROBE: after the last subscriber left, a new first subscriber must connect the source again (one live subscription)
#[kani::proof]
#[kani::unwind(4)]
fn k_conn_probe__refcount_reconnects() {
  let slot: &'static Slot<Observer<'static, u8>> = Slot::new();
  let slog = Log::new();
  let l1 = Log::new();
  let l2 = Log::new();
  let rc = counted_source(slot, slog).ref_count();
  let o = rc.observable();
  let s1 = attach(&o, l1);
  s1.unsubscribe();
  let _s2 = attach(&o, l2);
  assert!(slog.count(EV_S) == 2, "conn.ref_count: a first subscriber arriving after everybody left did not subscribe the source again");
  assert!(slot.get().unwrap().is_subscribed(), "conn.ref_count: no live source subscription for the new subscriber");
  kani::cover!(true, "harness reaches its end");
}

#[kani::proof]
#[kani::unwind(4)]
fn k_conn_replay__late_subscriber_gets_everything_once() {
  let slot: &'static Slot<Observer<'static, u8>> = Slot::new();
  let slog = Log::new();
  let l1 = Log::new();
  let l2 = Log::new();
  let rp = counted_source(slot, slog).replay();
  let o = rp.observable();
  let _s1 = attach(&o, l1);
  assert!(slog.count(EV_S) == 1, "conn.replay: the first subscriber did not connect the source exactly once");
  let x: u8 = kani::any();
  let y: u8 = kani::any();
  slot.get().unwrap().next(x);
  let s2 = attach(&o, l2);
  assert!(slog.count(EV_S) == 1, "conn.replay: a second source subscription was made");
  slot.get().unwrap().next(y);
  assert!(l1.is(&[EV_N | x as u32, EV_N | y as u32]), "conn.replay: first subscriber trace differs");
  assert!(l2.is(&[EV_N | x as u32, EV_N | y as u32]), "conn.replay: a late subscriber did not get the complete sequence from the beginning, each item once");
  s2.unsubscribe();
  assert!(slot.get().unwrap().is_subscribed(), "conn.replay: the source was stopped while a subscriber remained");
  kani::cover!(true, "harness reaches its end");
}
