// K-refine / bounded call sequences for the connectables publish / ref_count / replay (C13), real types, hot instrumented
// source (counts its subscriptions, exposes its observer).  BOUND: <= 2 subscribers, call sequences of length <= 6, unwind 4.
use crate::prelude::*;

pub(crate) const EV_S: u32 = 0x900; // the source was subscribed

/// hot source: counts subscriptions (EV_S), exposes the observer of the latest subscription, logs its teardown (EV_T)
fn counted_source(slot: &'static Slot<Observer<'static, u8>>, slog: &'static Log) -> Observable<'static, u8> {
  Observable::create(move |s: Observer<'static, u8>| {
    slog.push(EV_S);
    s.set_on_unsubscribe(move || slog.push(EV_T));
    slot.set(s);
  })
}

fn attach(o: &Observable<'static, u8>, log: &'static Log) -> Subscription<'static> {
  o.subscribe(
    move |x: u8| log.push(EV_N | x as u32),
    move |e: RxError| log.push(EV_E | err_id(&e)),
    move || log.push(EV_C),
  )
}

macro_rules! conn_h {
  ($name:ident, |$slot:ident, $slog:ident, $l1:ident, $l2:ident, $src:ident| $body:block) => {
    #[kani::proof]
    #[kani::unwind(3)]
    fn $name() {
      let $slot: &'static Slot<Observer<'static, u8>> = Slot::new();
      let $slog = Log::new();
      let $l1 = Log::new();
      let $l2 = Log::new();
      let $src = counted_source($slot, $slog);
      $body;
      kani::cover!(true, "harness reaches its end");
    }
  };
}

// ---- publish -----------------------------------------------------------------------------------------------------
conn_h!(k_conn_publish__subscribes_source_only_on_connect, |slot, slog, l1, l2, src| {
  let p = src.publish();
  let _s1 = attach(&p.observable(), l1);
  assert!(slog.count(EV_S) == 0, "conn.publish: the source was subscribed before connect()");
  let _conn = p.connect();
  assert!(slog.count(EV_S) == 1, "conn.publish: connect() did not subscribe the source exactly once");
  let x: u8 = kani::any();
  slot.get().unwrap().next(x);
  assert!(l1.is(&[EV_N | x as u32]), "conn.publish: a subscriber present at connect did not see the item once");
});
conn_h!(k_conn_publish__two_subscribers_see_the_same, |slot, slog, l1, l2, src| {
  let p = src.publish();
  let o = p.observable();
  let _s1 = attach(&o, l1);
  let _s2 = attach(&o, l2);
  let _conn = p.connect();
  let x: u8 = kani::any();
  slot.get().unwrap().next(x);
  assert!(l1.is(&[EV_N | x as u32]) && l2.is(&[EV_N | x as u32]), "conn.publish: subscribers present at connect did not see the same item once");
  assert!(slog.count(EV_S) == 1, "conn.publish: more than one source subscription");
});
conn_h!(k_conn_publish__disconnect_stops_source, |slot, slog, l1, l2, src| {
  let p = src.publish();
  let _s1 = attach(&p.observable(), l1);
  let conn = p.connect();
  conn.unsubscribe();
  assert!(!slot.get().unwrap().is_subscribed(), "conn.publish: unsubscribing the connection did not stop the source");
  slot.get().unwrap().next(kani::any());
  assert!(l1.len() == 0, "conn.publish: items delivered after the connection was unsubscribed");
});
conn_h!(k_conn_publish__reconnect_gets_a_live_subscription, |slot, slog, l1, l2, src| {
  let p = src.publish();
  let _s1 = attach(&p.observable(), l1);
  let conn1 = p.connect();
  conn1.unsubscribe();
  let _conn2 = p.connect();
  assert!(slog.count(EV_S) == 2, "conn.publish: the second connect() did not subscribe the source again");
  assert!(slot.get().unwrap().is_subscribed(), "conn.publish: the source subscription made by the second connect() is not live");
  let x: u8 = kani::any();
  slot.get().unwrap().next(x);
  assert!(l1.is(&[EV_N | x as u32]), "conn.publish: a subscriber that never left did not see the item emitted after reconnecting");
});

// ---- ref_count ---------------------------------------------------------------------------------------------------
conn_h!(k_conn_refcount__first_subscriber_connects, |slot, slog, l1, l2, src| {
  let rc = src.ref_count();
  let o = rc.observable();
  assert!(slog.count(EV_S) == 0, "conn.ref_count: the source was subscribed before the first subscriber");
  let _s1 = attach(&o, l1);
  assert!(slog.count(EV_S) == 1, "conn.ref_count: the first subscriber did not connect the source exactly once");
  let x: u8 = kani::any();
  slot.get().unwrap().next(x);
  assert!(l1.is(&[EV_N | x as u32]), "conn.ref_count: the subscriber did not see the item once");
});
conn_h!(k_conn_refcount__second_subscriber_shares, |slot, slog, l1, l2, src| {
  let rc = src.ref_count();
  let o = rc.observable();
  let _s1 = attach(&o, l1);
  let _s2 = attach(&o, l2);
  assert!(slog.count(EV_S) == 1, "conn.ref_count: a second source subscription was made");
  let x: u8 = kani::any();
  slot.get().unwrap().next(x);
  assert!(l1.is(&[EV_N | x as u32]) && l2.is(&[EV_N | x as u32]), "conn.ref_count: subscribers did not see the same item once");
});
conn_h!(k_conn_refcount__last_out_stops_source, |slot, slog, l1, l2, src| {
  let rc = src.ref_count();
  let o = rc.observable();
  let s1 = attach(&o, l1);
  let s2 = attach(&o, l2);
  s1.unsubscribe();
  assert!(slot.get().unwrap().is_subscribed(), "conn.ref_count: the source was stopped while a subscriber remained");
  s2.unsubscribe();
  assert!(!slot.get().unwrap().is_subscribed(), "conn.ref_count: the last subscriber left but the source is still subscribed");
  assert!(slog.count(EV_T) == 1, "conn.ref_count: the source teardown did not run exactly once");
});
// PROBE (known finding): after the last subscriber left, a new first subscriber must connect the source again
conn_h!(k_conn_probe__refcount_reconnects, |slot, slog, l1, l2, src| {
  let rc = src.ref_count();
  let o = rc.observable();
  let s1 = attach(&o, l1);
  s1.unsubscribe();
  let _s2 = attach(&o, l2);
  assert!(slog.count(EV_S) == 2, "conn.reconnect: a first subscriber arriving after everybody left did not subscribe the source again");
});

// ---- replay -------------------------------------------------------------------------------------------------------
conn_h!(k_conn_replay__late_subscriber_gets_history_once, |slot, slog, l1, l2, src| {
  let rp = src.replay();
  let o = rp.observable();
  let _s1 = attach(&o, l1);
  assert!(slog.count(EV_S) == 1, "conn.replay: the first subscriber did not connect the source exactly once");
  let x: u8 = kani::any();
  slot.get().unwrap().next(x);
  let _s2 = attach(&o, l2);
  assert!(slog.count(EV_S) == 1, "conn.replay: a second source subscription was made");
  assert!(l1.is(&[EV_N | x as u32]), "conn.replay: first subscriber trace differs");
  assert!(l2.is(&[EV_N | x as u32]), "conn.replay: a late subscriber did not get the complete sequence from the beginning, each item once");
});
conn_h!(k_conn_replay__late_subscriber_then_live, |slot, slog, l1, l2, src| {
  let rp = src.replay();
  let o = rp.observable();
  let _s1 = attach(&o, l1);
  let _s2 = attach(&o, l2);
  let y: u8 = kani::any();
  slot.get().unwrap().next(y);
  assert!(l1.is(&[EV_N | y as u32]) && l2.is(&[EV_N | y as u32]), "conn.replay: live item not delivered once to every subscriber");
});
conn_h!(k_conn_replay__first_leaves_second_stays, |slot, slog, l1, l2, src| {
  let rp = src.replay();
  let o = rp.observable();
  let s1 = attach(&o, l1);
  let s2 = attach(&o, l2);
  s1.unsubscribe();
  assert!(slot.get().unwrap().is_subscribed(), "conn.replay: the source was stopped while a subscriber remained");
  assert!(s2.is_subscribed(), "conn.replay: the remaining subscriber's subscription ended when the other one left");
  let y: u8 = kani::any();
  slot.get().unwrap().next(y);
  assert!(l2.is(&[EV_N | y as u32]), "conn.replay: the remaining subscriber lost a live item after the other one left");
  s2.unsubscribe();
  assert!(!slot.get().unwrap().is_subscribed(), "conn.replay: the last subscriber left but the source is still subscribed");
});

conn_h!(k_conn_replay__late_subscriber_after_source_completed, |slot, slog, l1, l2, src| {
  let rp = src.replay();
  let o = rp.observable();
  let _s1 = attach(&o, l1);
  let x: u8 = kani::any();
  slot.get().unwrap().next(x);
  slot.get().unwrap().complete();
  let _s2 = attach(&o, l2);
  assert!(slog.count(EV_S) == 1, "conn.replay: the source was subscribed again for a late subscriber (the sequence would be recorded twice)");
  assert!(l1.is(&[EV_N | x as u32, EV_C]), "conn.replay: first subscriber trace differs");
  assert!(l2.is(&[EV_N | x as u32, EV_C]), "conn.replay: a subscriber arriving after the source completed did not get the whole sequence once, then complete");
});
// a cold source that emits synchronously while ref_count connects it: the first subscriber (who triggered the connect) sees the item
#[kani::proof]
#[kani::unwind(3)]
fn k_conn_refcount__sync_source_reaches_first_subscriber() {
  let slot: &'static Slot<Observer<'static, u8>> = Slot::new();
  let l1 = Log::new();
  let src: Observable<'static, u8> = Observable::create(move |s: Observer<'static, u8>| {
    s.next(7);
    slot.set(s);
  });
  let rc = src.ref_count();
  let _s1 = attach(&rc.observable(), l1);
  assert!(l1.is(&[EV_N | 7]), "conn.ref_count: the subscriber that triggered the connect missed what the source emitted while being connected");
  kani::cover!(true, "harness reaches its end");
}

// PROBE (known finding): a COLD source that emits synchronously while being subscribed, through replay(): the first subscriber must
// get each item once.  (ReplaySubject::observable attaches the live forwarding observer first and replays the history afterwards;
// the items the source pushed in between are both forwarded live and replayed.)
#[kani::proof]
#[kani::unwind(3)]
fn k_conn_probe__replay_of_a_synchronous_source_delivers_each_item_once() {
  let l1 = Log::new();
  let (a, b): (u8, u8) = (kani::any(), kani::any());
  let src: Observable<'static, u8> = Observable::create(move |s: Observer<'static, u8>| {
    s.next(a);
    s.next(b);
  });
  let rp = src.replay();
  let _s1 = attach(&rp.observable(), l1);
  assert!(l1.is(&[EV_N | a as u32, EV_N | b as u32]), "conn.replay.sync: the first subscriber of replay() over a synchronously emitting source did not get each item exactly once");
  kani::cover!(true, "harness reaches its end");
}
