// crate::verif_kani - shared by all Kani harness modules (injected by tools/kaniprep.py; compiled only under cfg(kani),
// or under cfg(verif_replay) for native replays).
#![allow(dead_code, unused_imports, unused_variables)]
use crate::prelude::*;
use std::cell::Cell;

// ---- event log -------------------------------------------------------------------------------------------------
pub const EV_N: u32 = 0x100; // | item (u8)
pub const EV_E: u32 = 0x200; // | error id (u8)
pub const EV_C: u32 = 0x300;
pub const EV_T: u32 = 0x400; // teardown / on_unsubscribe action ran
pub const EV_F: u32 = 0x500; // on_finalize ran
pub const EV_U: u32 = 0x600; // | serial: an upstream unsubscribe action ran
pub const LOG_CAP: usize = 10;

pub struct Log {
  n: Cell<usize>,
  ev: [Cell<u32>; LOG_CAP],
}
unsafe impl Sync for Log {}
unsafe impl Send for Log {}
impl Log {
  pub fn new() -> &'static Log {
    Box::leak(Box::new(Log { n: Cell::new(0), ev: Default::default() }))
  }
  pub fn push(&self, code: u32) {
    let n = self.n.get();
    assert!(n < LOG_CAP, "harness log overflow");
    self.ev[n].set(code);
    self.n.set(n + 1);
  }
  pub fn len(&self) -> usize {
    self.n.get()
  }
  pub fn get(&self, i: usize) -> u32 {
    self.ev[i].get()
  }
  /// loop-free (unrolled over LOG_CAP) so that harnesses need no unwinding for the log itself
  pub fn is(&self, expect: &[u32]) -> bool {
    if self.len() != expect.len() {
      return false;
    }
    macro_rules! at {
      ($i:expr) => {
        if $i < expect.len() && self.ev[$i].get() != expect[$i] {
          return false;
        }
      };
    }
    at!(0); at!(1); at!(2); at!(3); at!(4); at!(5); at!(6); at!(7); at!(8); at!(9);
    true
  }
  pub fn count(&self, code: u32) -> usize {
    let n = self.len();
    let mut k = 0;
    macro_rules! at {
      ($i:expr) => {
        if $i < n && self.ev[$i].get() == code {
          k += 1;
        }
      };
    }
    at!(0); at!(1); at!(2); at!(3); at!(4); at!(5); at!(6); at!(7); at!(8); at!(9);
    k
  }
  /// (number of downstream events N/E/C, the last one)
  pub fn downstream(&self) -> (usize, u32) {
    let n = self.len();
    let mut k = 0;
    let mut last = 0;
    macro_rules! at {
      ($i:expr) => {
        if $i < n {
          let c = self.ev[$i].get() & 0xf00;
          if c == EV_N || c == EV_E || c == EV_C {
            k += 1;
            last = self.ev[$i].get();
          }
        }
      };
    }
    at!(0); at!(1); at!(2); at!(3); at!(4); at!(5); at!(6); at!(7); at!(8); at!(9);
    (k, last)
  }
}

/// a shared boolean (re-entrancy guards in callbacks)
pub struct Flag {
  v: Cell<bool>,
}
unsafe impl Sync for Flag {}
unsafe impl Send for Flag {}
impl Flag {
  pub fn new() -> &'static Flag {
    Box::leak(Box::new(Flag { v: Cell::new(false) }))
  }
  pub fn get(&self) -> bool {
    self.v.get()
  }
  pub fn set(&self, b: bool) {
    self.v.set(b)
  }
}

/// a late-bound handle so that a callback can call back into the object it is registered on (re-entrancy)
pub struct Slot<T> {
  v: Cell<Option<T>>,
}
unsafe impl<T> Sync for Slot<T> {}
unsafe impl<T> Send for Slot<T> {}
impl<T: Clone> Slot<T> {
  pub fn new() -> &'static Slot<T>
  where
    T: 'static,
  {
    Box::leak(Box::new(Slot { v: Cell::new(None) }))
  }
  pub fn set(&self, t: T) {
    self.v.set(Some(t));
  }
  pub fn get(&self) -> Option<T> {
    let x = self.v.take();
    let r = x.clone();
    self.v.set(x);
    r
  }
}

/// stub for alloc::fmt::format (Kani guidance: `format!` on never-taken display paths dominated CBMC's cost): RxError builds a
/// `get_str` closure with `format!`; the harnesses never look at error *texts*.
pub fn stub_format(_args: std::fmt::Arguments<'_>) -> String {
  String::new()
}

// Error payloads in harnesses are identified by OBJECT IDENTITY (the Arc inside RxError), not by downcasting: `dyn Any` type ids are
// not available under `-Z restrict-vtable`, and identity is the stronger statement anyway (C04: "the very same payload").
pub const ERR_CAP: usize = 4;
pub struct ErrTab {
  n: Cell<usize>,
  ids: [Cell<u8>; ERR_CAP],
  errs: [Cell<Option<RxError>>; ERR_CAP],
}
unsafe impl Sync for ErrTab {}
impl ErrTab {
  const fn new() -> ErrTab {
    ErrTab {
      n: Cell::new(0),
      ids: [Cell::new(0), Cell::new(0), Cell::new(0), Cell::new(0)],
      errs: [Cell::new(None), Cell::new(None), Cell::new(None), Cell::new(None)],
    }
  }
}
// under Kani every harness is its own program: a plain static.  In native replays all tests share one process: per-thread table.
#[cfg(kani)]
static ERR_TAB: ErrTab = ErrTab::new();
#[cfg(kani)]
fn with_tab<R>(f: impl FnOnce(&ErrTab) -> R) -> R {
  f(&ERR_TAB)
}
#[cfg(not(kani))]
thread_local! { static ERR_TAB: ErrTab = ErrTab::new(); }
#[cfg(not(kani))]
fn with_tab<R>(f: impl FnOnce(&ErrTab) -> R) -> R {
  ERR_TAB.with(|t| f(t))
}
/// a fresh error object tagged `id`
pub fn err(id: u8) -> RxError {
  let e = RxError::from_error(id);
  let e2 = e.clone();
  with_tab(move |t| {
    let n = t.n.get();
    assert!(n < ERR_CAP, "harness error table overflow");
    t.ids[n].set(id);
    t.errs[n].set(Some(e2));
    t.n.set(n + 1);
  });
  e
}
/// the tag of the error object `e` was created with (0xff: not an object created by `err`)
pub fn err_id(e: &RxError) -> u32 {
  with_tab(|t| {
    let n = t.n.get();
    macro_rules! at {
      ($i:expr) => {
        if $i < n {
          let x = t.errs[$i].take();
          let same = match &x {
            Some(r) => crate::rx_error::verif_k::same_error(r, e),
            None => false,
          };
          t.errs[$i].set(x);
          if same {
            return t.ids[$i].get() as u32;
          }
        }
      };
    }
    at!(0); at!(1); at!(2); at!(3);
    0xff
  })
}

/// recording subscriber: logs N/E/C
pub fn rec_observer(log: &'static Log) -> Observer<'static, u8> {
  Observer::new(
    move |x: u8| log.push(EV_N | x as u32),
    move |e: RxError| log.push(EV_E | err_id(&e)),
    move || log.push(EV_C),
  )
}

// ---- ObsModel (DESIGN A.1): the contract of Observer, executable -----------------------------------------------------
#[derive(Clone, Copy, PartialEq, Eq, Debug)]
pub struct ObsState {
  pub n: bool,
  pub e: bool,
  pub c: bool,
  pub t: bool,
}
#[derive(Clone, Copy, PartialEq, Eq, Debug)]
pub enum ObsCall {
  Next(u8),
  Error(u8),
  Complete,
  Unsubscribe,
}
/// returns (post-state, emitted event or 0)
pub fn obs_step(s: ObsState, call: ObsCall) -> (ObsState, u32) {
  match call {
    ObsCall::Next(x) => (s, if s.n { EV_N | x as u32 } else { 0 }),
    // a terminal is delivered iff its own slot is still present; afterwards NO slot is callable (C01); teardown slot untouched
    ObsCall::Error(id) => (ObsState { n: false, e: false, c: false, t: s.t }, if s.e { EV_E | id as u32 } else { 0 }),
    ObsCall::Complete => (ObsState { n: false, e: false, c: false, t: s.t }, if s.c { EV_C } else { 0 }),
    // unsubscribe: all four slots empty afterwards, the teardown ran exactly once iff it was present (C05/C17)
    ObsCall::Unsubscribe => (ObsState { n: false, e: false, c: false, t: false }, if s.t { EV_T } else { 0 }),
  }
}
pub fn obs_is_subscribed(s: ObsState) -> bool {
  s.n && s.e && s.c
}
