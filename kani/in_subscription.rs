use crate::prelude::*;
// K-refine obligations for Subscription / Observable::inner_subscribe / subscribe / utils::Using (L1', C05) against SubModel
// (DESIGN A.2): unsubscribe = take-and-call (runs the action once, idempotent); is_subscribed reflects the observer's slots and
// is false for ever after unsubscribe or a terminal; the Subscription returned by subscribe acts on the very observer the source
// emits into; dropping a Using guard unsubscribes.  Loop-free, symbolic payloads.

#[kani::proof]
fn k_sub_unsubscribe_runs_action_once() {
  let log = Log::new();
  let sb = Subscription::new(move || log.push(EV_T), move || true);
  assert!(sb.is_subscribed(), "sub.is_subscribed: fresh subscription must report the observer's state");
  sb.unsubscribe();
  assert!(log.is(&[EV_T]), "sub.unsubscribe: action did not run exactly once");
  sb.unsubscribe();
  sb.clone().unsubscribe();
  assert!(log.is(&[EV_T]), "sub.unsubscribe: not idempotent (action ran again)");
  kani::cover!(true, "harness reaches its end");
}

/// hot source: hands its observer out through the slot so that the harness can emit step by step
fn hot_source(slot: &'static Slot<Observer<'static, u8>>, log: &'static Log) -> Observable<'static, u8> {
  Observable::create(move |s: Observer<'static, u8>| {
    s.set_on_unsubscribe(move || log.push(EV_T));
    slot.set(s);
  })
}

#[kani::proof]
fn k_sub_unsubscribe_stops_delivery() {
  let log = Log::new();
  let slot: &'static Slot<Observer<'static, u8>> = Slot::new();
  let o = hot_source(slot, log);
  let sb = o.subscribe(move |x: u8| log.push(EV_N | x as u32), move |e: RxError| log.push(EV_E | err_id(&e)), move || log.push(EV_C));
  let src = slot.get().unwrap();
  let x: u8 = kani::any();
  assert!(sb.is_subscribed() && src.is_subscribed(), "sub.is_subscribed: must be true from subscribe until the first terminal or unsubscribe");
  src.next(x);
  assert!(sb.is_subscribed(), "sub.is_subscribed: must stay true after an item");
  sb.unsubscribe();
  assert!(!sb.is_subscribed(), "sub.is_subscribed: must be false after unsubscribe");
  assert!(!src.is_subscribed(), "sub.unsubscribe: the source's observer still reports subscribed (the subscription does not act on the observer the source emits into)");
  src.next(kani::any());
  src.error(err(kani::any()));
  src.complete();
  assert!(log.is(&[EV_N | x as u32, EV_T]), "sub.after_unsubscribe: an event reached the callbacks after unsubscribe returned (or the teardown did not run once)");
  sb.unsubscribe();
  assert!(log.is(&[EV_N | x as u32, EV_T]), "sub.unsubscribe: second unsubscribe had an effect");
  assert!(!sb.is_subscribed(), "sub.is_subscribed: became true again");
  kani::cover!(true, "harness reaches its end");
}

#[kani::proof]
fn k_sub_terminal_ends_subscription() {
  let log = Log::new();
  let slot: &'static Slot<Observer<'static, u8>> = Slot::new();
  let o = hot_source(slot, log);
  let sb = o.subscribe(move |x: u8| log.push(EV_N | x as u32), move |e: RxError| log.push(EV_E | err_id(&e)), move || log.push(EV_C));
  let src = slot.get().unwrap();
  src.complete();
  assert!(!sb.is_subscribed(), "sub.is_subscribed: must be false after the terminal");
  src.next(kani::any());
  sb.unsubscribe(); // after a terminal: no callback, only the teardown (once)
  sb.unsubscribe();
  assert!(log.is(&[EV_C, EV_T]), "sub.after_terminal: trace differs (delivery after the terminal, or unsubscribe after a terminal had a visible effect beyond the teardown)");
  assert!(!sb.is_subscribed(), "sub.is_subscribed: became true again");
  kani::cover!(true, "harness reaches its end");
}

#[kani::proof]
fn k_sub_unsubscribe_before_first_item() {
  let log = Log::new();
  let slot: &'static Slot<Observer<'static, u8>> = Slot::new();
  let o = hot_source(slot, log);
  let sb = o.subscribe(move |x: u8| log.push(EV_N | x as u32), move |e: RxError| log.push(EV_E | err_id(&e)), move || log.push(EV_C));
  sb.unsubscribe();
  let src = slot.get().unwrap();
  src.next(kani::any());
  src.complete();
  assert!(log.is(&[EV_T]), "sub.after_unsubscribe: an event reached the callbacks after unsubscribe returned");
  kani::cover!(true, "harness reaches its end");
}

#[kani::proof]
fn k_sub_using_drop_unsubscribes() {
  let log = Log::new();
  let slot: &'static Slot<Observer<'static, u8>> = Slot::new();
  let o = hot_source(slot, log);
  let x: u8 = kani::any();
  {
    let _guard = crate::utils::using::Using::new(o.subscribe(
      move |x: u8| log.push(EV_N | x as u32),
      move |e: RxError| log.push(EV_E | err_id(&e)),
      move || log.push(EV_C),
    ));
    slot.get().unwrap().next(x);
  }
  let src = slot.get().unwrap();
  assert!(!src.is_subscribed(), "using.drop: dropping the guard did not unsubscribe");
  src.next(kani::any());
  assert!(log.is(&[EV_N | x as u32, EV_T]), "using.drop: trace differs (delivery after the guard was dropped, or teardown not run once)");
  kani::cover!(true, "harness reaches its end");
}

// An observer that has already ended is not handed to the source.  (merge / zip / amb / take_until ... wire their remaining inputs
// after the first one may have ended the stream synchronously; an input subscribed for the ended observer would stay subscribed -
// a hot source would hold it, and the closures of the operators in between, until it next emits.)
#[kani::proof]
fn k_sub_inner_subscribe__ended_observer_is_not_handed_to_the_source() {
  let calls = Log::new();
  let log = Log::new();
  let o: Observable<'static, u8> = Observable::create(move |_s: Observer<'static, u8>| calls.push(EV_T));
  let ob = rec_observer(log);
  if kani::any() {
    ob.unsubscribe();
  } else {
    ob.complete();
  }
  let sb = o.inner_subscribe(ob.clone());
  assert!(calls.len() == 0, "sub.inner_subscribe.ended: the source was subscribed for an observer that had already ended");
  assert!(!sb.is_subscribed(), "sub.is_subscribed: a subscription made for an ended observer reports subscribed");
  let live = rec_observer(log);
  let _sb2 = o.inner_subscribe(live.clone());
  assert!(calls.len() == 1, "sub.inner_subscribe: the source was not subscribed exactly once for a live observer");
  kani::cover!(true, "harness reaches its end");
}
