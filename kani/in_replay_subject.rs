// read-only accessor for the harnesses of in_subjects2.rs (ReplaySubject's inner Subject is a private field)
pub(crate) fn inner<'b>(r: &'b ReplaySubject<'static, u8>) -> &'b crate::subjects::subject::Subject<'static, u8> {
  &r.subject
}
