// Bounded conformance harnesses ("K-wire", DESIGN 3.3) for operators whose handlers are NOT extractable for Verus (they create
// closures or use iterator adapters): the real pipeline, hot instrumented sources driven step by step, concrete control, symbolic
// items, compared with the operator's definition.  BOUNDED stand-ins: never counted as proved.
use crate::prelude::*;

fn hot(slot: &'static Slot<Observer<'static, u8>>) -> Observable<'static, u8> {
  Observable::create(move |s: Observer<'static, u8>| {
    slot.set(s);
  })
}

// zip(a, b): the i-th tuple from the i-th item of every source, as soon as every source has an i-th item; complete when all completed
#[kani::proof]
#[kani::unwind(4)]
fn k_wire_zip__pairs_ith_items() {
  let sa: &'static Slot<Observer<'static, u8>> = Slot::new();
  let sb: &'static Slot<Observer<'static, u8>> = Slot::new();
  let log = Log::new();
  let _s = hot(sa).zip(&[hot(sb)]).subscribe(
    move |v: Vec<u8>| log.push(EV_N | (v[0] as u32) | ((v[1] as u32) << 12)),
    move |e: RxError| log.push(EV_E | err_id(&e)),
    move || log.push(EV_C),
  );
  let (a1, a2, b1): (u8, u8, u8) = (kani::any(), kani::any(), kani::any());
  let a = sa.get().unwrap();
  let b = sb.get().unwrap();
  a.next(a1);
  a.next(a2);
  assert!(log.len() == 0, "wire.zip: a tuple was emitted before every source had an item");
  b.next(b1);
  assert!(log.is(&[EV_N | (a1 as u32) | ((b1 as u32) << 12)]), "wire.zip: the first tuple is not (first item of a, first item of b)");
  kani::cover!(true, "harness reaches its end");
}

#[kani::proof]
#[kani::unwind(4)]
fn k_wire_zip__error_ends_and_tears_down_sibling() {
  let sa: &'static Slot<Observer<'static, u8>> = Slot::new();
  let sb: &'static Slot<Observer<'static, u8>> = Slot::new();
  let log = Log::new();
  let _s = hot(sa).zip(&[hot(sb)]).subscribe(
    move |v: Vec<u8>| log.push(EV_N),
    move |e: RxError| log.push(EV_E | err_id(&e)),
    move || log.push(EV_C),
  );
  let id: u8 = kani::any();
  sa.get().unwrap().error(err(id));
  assert!(log.is(&[EV_E | id as u32]), "wire.zip: the error of an input did not reach the subscriber once, unchanged");
  assert!(!sb.get().unwrap().is_subscribed(), "wire.zip: the sibling of an erroring input is still subscribed");
  kani::cover!(true, "harness reaches its end");
}

// start_with(ys): ys first (in order), then the source
#[kani::proof]
#[kani::unwind(4)]
fn k_wire_start_with__prologue_then_source() {
  let sa: &'static Slot<Observer<'static, u8>> = Slot::new();
  let log = Log::new();
  let (y1, y2, x1): (u8, u8, u8) = (kani::any(), kani::any(), kani::any());
  let _s = hot(sa).start_with([y1, y2].into_iter()).subscribe(
    move |x: u8| log.push(EV_N | x as u32),
    move |e: RxError| log.push(EV_E | err_id(&e)),
    move || log.push(EV_C),
  );
  sa.get().unwrap().next(x1);
  sa.get().unwrap().complete();
  assert!(log.is(&[EV_N | y1 as u32, EV_N | y2 as u32, EV_N | x1 as u32, EV_C]), "wire.start_with: trace differs from ys ++ xs, terminal mirrored");
  kani::cover!(true, "harness reaches its end");
}
