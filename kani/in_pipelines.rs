// Bounded conformance harnesses ("K-wire", DESIGN 3.3) for operators whose handlers are NOT extractable for Verus (they create
// closures or use iterator adapters): the real pipeline, hot instrumented sources driven step by step, concrete control, symbolic
// items, compared with the operator's definition.  BOUNDED stand-ins: never counted as proved.
use crate::prelude::*;

fn hot(slot: &'static Slot<Observer<'static, u8>>) -> Observable<'static, u8> {
  Observable::create(move |s: Observer<'static, u8>| {
    slot.set(s);
  })
}

// zip(a, b): the i-th tuple from the i-th item of every source, as soon as every source has an i-th item; complete when all completed
#[kani::proof]
#[kani::unwind(4)]
fn k_wire_zip__pairs_ith_items() {
  let sa: &'static Slot<Observer<'static, u8>> = Slot::new();
  let sb: &'static Slot<Observer<'static, u8>> = Slot::new();
  let log = Log::new();
  let _s = hot(sa).zip(&[hot(sb)]).subscribe(
    move |v: Vec<u8>| log.push(EV_N | (v[0] as u32) | ((v[1] as u32) << 12)),
    move |e: RxError| log.push(EV_E | err_id(&e)),
    move || log.push(EV_C),
  );
  let (a1, a2, b1): (u8, u8, u8) = (kani::any(), kani::any(), kani::any());
  let a = sa.get().unwrap();
  let b = sb.get().unwrap();
  a.next(a1);
  a.next(a2);
  assert!(log.len() == 0, "wire.zip: a tuple was emitted before every source had an item");
  b.next(b1);
  assert!(log.is(&[EV_N | (a1 as u32) | ((b1 as u32) << 12)]), "wire.zip: the first tuple is not (first item of a, first item of b)");
  kani::cover!(true, "harness reaches its end");
}

#[kani::proof]
#[kani::unwind(4)]
fn k_wire_zip__error_ends_and_tears_down_sibling() {
  let sa: &'static Slot<Observer<'static, u8>> = Slot::new();
  let sb: &'static Slot<Observer<'static, u8>> = Slot::new();
  let log = Log::new();
  let _s = hot(sa).zip(&[hot(sb)]).subscribe(
    move |v: Vec<u8>| log.push(EV_N),
    move |e: RxError| log.push(EV_E | err_id(&e)),
    move || log.push(EV_C),
  );
  let id: u8 = kani::any();
  sa.get().unwrap().error(err(id));
  assert!(log.is(&[EV_E | id as u32]), "wire.zip: the error of an input did not reach the subscriber once, unchanged");
  assert!(!sb.get().unwrap().is_subscribed(), "wire.zip: the sibling of an erroring input is still subscribed");
  kani::cover!(true, "harness reaches its end");
}

// start_with(ys): ys first (in order), then the source
#[kani::proof]
#[kani::unwind(4)]
fn k_wire_start_with__prologue_then_source() {
  let sa: &'static Slot<Observer<'static, u8>> = Slot::new();
  let log = Log::new();
  let (y1, y2, x1): (u8, u8, u8) = (kani::any(), kani::any(), kani::any());
  let _s = hot(sa).start_with([y1, y2].into_iter()).subscribe(
    move |x: u8| log.push(EV_N | x as u32),
    move |e: RxError| log.push(EV_E | err_id(&e)),
    move || log.push(EV_C),
  );
  sa.get().unwrap().next(x1);
  sa.get().unwrap().complete();
  assert!(log.is(&[EV_N | y1 as u32, EV_N | y2 as u32, EV_N | x1 as u32, EV_C]), "wire.start_with: trace differs from ys ++ xs, terminal mirrored");
  kani::cover!(true, "harness reaches its end");
}

// ---- further bounded conformance harnesses for operators without a Verus unit (run natively, see kani/harnesses.toml "wire") ----
// zip with three sources: tuple positions follow the order (source, others in the order given); one tuple per complete row
#[kani::proof]
#[kani::unwind(4)]
fn k_wire_zip__three_sources_positions_and_completion() {
  let sa: &'static Slot<Observer<'static, u8>> = Slot::new();
  let sb: &'static Slot<Observer<'static, u8>> = Slot::new();
  let sc: &'static Slot<Observer<'static, u8>> = Slot::new();
  let log = Log::new();
  let got: &'static Slot<Vec<u8>> = Slot::new();
  let _s = hot(sa).zip(&[hot(sb), hot(sc)]).subscribe(
    move |v: Vec<u8>| { got.set(v); log.push(EV_N) },
    move |e: RxError| log.push(EV_E | err_id(&e)),
    move || log.push(EV_C),
  );
  let (a, b, c) = (sa.get().unwrap(), sb.get().unwrap(), sc.get().unwrap());
  c.next(3);
  a.next(1);
  assert!(log.len() == 0, "wire.zip: a tuple was emitted before every source had an item");
  b.next(2);
  assert!(log.is(&[EV_N]) && got.get().unwrap() == vec![1, 2, 3], "wire.zip: the tuple is not (item of source, item of 1st other, item of 2nd other)");
  a.complete();
  b.complete();
  assert!(log.is(&[EV_N]), "wire.zip: completed before all sources completed");
  c.complete();
  assert!(log.is(&[EV_N, EV_C]), "wire.zip: did not complete exactly once after all sources completed");
  kani::cover!(true, "harness reaches its end");
}

// sequence_equal on equal sequences and on sequences that differ in an item (length differences are an open known finding)
#[kani::proof]
#[kani::unwind(4)]
fn k_wire_sequence_equal__equal_and_different_item() {
  let l1 = Log::new();
  let l2 = Log::new();
  let _s1 = observables::from_iter([1u8, 2, 3].into_iter()).sequence_equal(&[observables::from_iter([1u8, 2, 3].into_iter())]).subscribe(
    move |b: bool| l1.push(EV_N | b as u32), move |e: RxError| l1.push(EV_E), move || l1.push(EV_C));
  assert!(l1.is(&[EV_N | 1, EV_C]), "wire.sequence_equal: equal sequences are not reported as true, complete");
  let _s2 = observables::from_iter([1u8, 2, 3].into_iter()).sequence_equal(&[observables::from_iter([1u8, 9, 3].into_iter())]).subscribe(
    move |b: bool| l2.push(EV_N | b as u32), move |e: RxError| l2.push(EV_E), move || l2.push(EV_C));
  assert!(l2.is(&[EV_N | 0, EV_C]), "wire.sequence_equal: sequences differing in an item are not reported as false, complete");
  kani::cover!(true, "harness reaches its end");
}

// group_by: one inner observable per key, announced when the key first appears; each inner mirrors the items of its key and the terminal
#[kani::proof]
#[kani::unwind(4)]
fn k_wire_group_by__routes_items_by_key() {
  let sa: &'static Slot<Observer<'static, u8>> = Slot::new();
  let outer = Log::new();
  let even = Log::new();
  let odd = Log::new();
  let _s = hot(sa).group_by(|x: u8| x % 2).subscribe(
    move |g: Observable<'static, u8>| {
      let n = outer.len();
      outer.push(EV_N);
      let log = if n == 0 { even } else { odd };
      g.subscribe(move |x: u8| log.push(EV_N | x as u32), move |e: RxError| log.push(EV_E), move || log.push(EV_C));
    },
    move |e: RxError| outer.push(EV_E),
    move || outer.push(EV_C),
  );
  let a = sa.get().unwrap();
  a.next(2);
  a.next(3);
  a.next(4);
  a.next(5);
  a.complete();
  assert!(outer.is(&[EV_N, EV_N, EV_C]), "wire.group_by: the outer observable must emit one group per key, then mirror the terminal");
  assert!(even.is(&[EV_N | 2, EV_N | 4, EV_C]), "wire.group_by: the group of the first key did not get exactly its items and the terminal");
  assert!(odd.is(&[EV_N | 3, EV_N | 5, EV_C]), "wire.group_by: the group of the second key did not get exactly its items and the terminal");
  kani::cover!(true, "harness reaches its end");
}

// map_to_any + downcast gives the items back; from_result(Ok) = just, from_result(Err) = error with the same payload
#[kani::proof]
#[kani::unwind(4)]
fn k_wire_map_to_any_and_from_result() {
  let l1 = Log::new();
  let _s1 = observables::from_iter([4u8, 5].into_iter()).map_to_any().subscribe(
    move |x| l1.push(EV_N | *x.downcast_ref::<u8>().unwrap() as u32), move |e: RxError| l1.push(EV_E), move || l1.push(EV_C));
  assert!(l1.is(&[EV_N | 4, EV_N | 5, EV_C]), "wire.map_to_any: items are not given back by downcasting");
  let l2 = Log::new();
  let _s2 = observables::from_result(Ok::<u8, u16>(7)).subscribe(move |x: u8| l2.push(EV_N | x as u32), move |e: RxError| l2.push(EV_E), move || l2.push(EV_C));
  assert!(l2.is(&[EV_N | 7, EV_C]), "wire.from_result: Ok(x) must behave like just(x)");
  let l3 = Log::new();
  let _s3 = observables::from_result(Err::<u8, u16>(300)).subscribe(
    move |x: u8| l3.push(EV_N), move |e: RxError| l3.push(EV_E | (*e.downcast_ref::<u16>().unwrap() as u32 & 0xff)), move || l3.push(EV_C));
  assert!(l3.is(&[EV_E | (300 & 0xff)]), "wire.from_result: Err(e) must behave like error(e) with the same payload");
  kani::cover!(true, "harness reaches its end");
}

// window_with_count(2): windows [1,2] [3]; start_with on a cold source
#[kani::proof]
#[kani::unwind(4)]
fn k_wire_window_with_count__two() {
  let sa: &'static Slot<Observer<'static, u8>> = Slot::new();
  let outer = Log::new();
  let w1 = Log::new();
  let w2 = Log::new();
  let _s = hot(sa).window_with_count(2).subscribe(
    move |w: Observable<'static, u8>| {
      let n = outer.len();
      outer.push(EV_N);
      let log = if n == 0 { w1 } else { w2 };
      w.subscribe(move |x: u8| log.push(EV_N | x as u32), move |e: RxError| log.push(EV_E), move || log.push(EV_C));
    },
    move |e: RxError| outer.push(EV_E),
    move || outer.push(EV_C),
  );
  let a = sa.get().unwrap();
  a.next(1);
  a.next(2);
  a.next(3);
  a.complete();
  assert!(outer.is(&[EV_N, EV_N, EV_C]), "wire.window_with_count: one inner observable per window, then the terminal");
  assert!(w1.len() >= 1 && w1.get(w1.len() - 1) == EV_C, "wire.window_with_count: a full window was not completed");
  assert!(w2.is(&[EV_C]) || w2.is(&[EV_N | 3, EV_C]), "wire.window_with_count: the last window did not get the source terminal");
  kani::cover!(true, "harness reaches its end");
}

// start_with + an early stop by the downstream during the prologue: the source must not be left with a live observer (C06)
#[kani::proof]
#[kani::unwind(4)]
fn k_wire_start_with__early_stop_leaves_source_unsubscribed() {
  let sa: &'static Slot<Observer<'static, u8>> = Slot::new();
  let log = Log::new();
  let _s = hot(sa).start_with([1u8, 2, 3].into_iter()).take(2).subscribe(
    move |x: u8| log.push(EV_N | x as u32), move |e: RxError| log.push(EV_E), move || log.push(EV_C));
  assert!(log.is(&[EV_N | 1, EV_N | 2, EV_C]), "wire.start_with: trace differs");
  assert!(match sa.get() { None => true, Some(o) => !o.is_subscribed() }, "wire.start_with.teardown: the downstream ended during the prologue but the source was subscribed with a live observer");
  kani::cover!(true, "harness reaches its end");
}

// group_by with an erroring source: the outer observable AND every group get the error (same payload), not a completion
#[kani::proof]
#[kani::unwind(4)]
fn k_wire_group_by__error_reaches_groups() {
  let sa: &'static Slot<Observer<'static, u8>> = Slot::new();
  let outer = Log::new();
  let g0 = Log::new();
  let _s = hot(sa).group_by(|x: u8| x % 2).subscribe(
    move |g: Observable<'static, u8>| {
      outer.push(EV_N);
      g.subscribe(move |x: u8| g0.push(EV_N | x as u32), move |e: RxError| g0.push(EV_E | err_id(&e)), move || g0.push(EV_C));
    },
    move |e: RxError| outer.push(EV_E | err_id(&e)),
    move || outer.push(EV_C),
  );
  let a = sa.get().unwrap();
  a.next(2);
  a.error(err(9));
  assert!(outer.is(&[EV_N, EV_E | 9]), "wire.group_by: the outer observable did not get the source error unchanged");
  assert!(g0.is(&[EV_N | 2, EV_E | 9]), "wire.group_by: a group did not get the source error (same payload) as its terminal");
  kani::cover!(true, "harness reaches its end");
}

// utils::Something: success(x).proceed() = just(x); error(e).proceed() = error(e) with the same payload object
#[kani::proof]
#[kani::unwind(4)]
fn k_wire_something__proceed() {
  let l1 = Log::new();
  let _s1 = utils::Something::success(5u8).proceed().subscribe(move |x: u8| l1.push(EV_N | x as u32), move |e: RxError| l1.push(EV_E), move || l1.push(EV_C));
  assert!(l1.is(&[EV_N | 5, EV_C]), "wire.something: success(x).proceed() must behave like just(x)");
  let l2 = Log::new();
  let _s2 = utils::Something::<u8>::error(err(4)).proceed().subscribe(move |x: u8| l2.push(EV_N), move |e: RxError| l2.push(EV_E | err_id(&e)), move || l2.push(EV_C));
  assert!(l2.is(&[EV_E | 4]), "wire.something: error(e).proceed() must deliver the same error payload as its only event");
  kani::cover!(true, "harness reaches its end");
}

// amb: once an input has won, a loser that tries to emit is not delivered and finds itself unsubscribed at the latest then (C06)
#[kani::proof]
#[kani::unwind(4)]
fn k_wire_amb__losers_are_unsubscribed_when_they_next_emit() {
  let sa: &'static Slot<Observer<'static, u8>> = Slot::new();
  let sb: &'static Slot<Observer<'static, u8>> = Slot::new();
  let sc: &'static Slot<Observer<'static, u8>> = Slot::new();
  let log = Log::new();
  let _s = hot(sa).amb(&[hot(sb), hot(sc)]).subscribe(
    move |x: u8| log.push(EV_N | x as u32),
    move |e: RxError| log.push(EV_E | err_id(&e)),
    move || log.push(EV_C),
  );
  let (b1, a1, c1, b2): (u8, u8, u8, u8) = (kani::any(), kani::any(), kani::any(), kani::any());
  sb.get().unwrap().next(b1); // an argument wins
  sa.get().unwrap().next(a1); // the receiver (a loser) tries to emit
  assert!(!sa.get().unwrap().is_subscribed(), "wire.amb.losers: the losing receiver is still subscribed after it tried to emit");
  sc.get().unwrap().next(c1);
  assert!(!sc.get().unwrap().is_subscribed(), "wire.amb.losers: a losing argument is still subscribed after it tried to emit");
  sb.get().unwrap().next(b2);
  assert!(log.is(&[EV_N | b1 as u32, EV_N | b2 as u32]), "wire.amb: only the winner's items are delivered");
  kani::cover!(true, "harness reaches its end");
}

// from_iter over an iterator that counts how often it is pulled: after the subscription has ended (take(3)) the producer stops
// pulling (an endless iterator would otherwise never return)
#[derive(Clone)]
struct CountingIter {
  n: u8,
  pulls: &'static Log,
}
impl Iterator for CountingIter {
  type Item = u8;
  fn next(&mut self) -> Option<u8> {
    self.pulls.push(1);
    if self.n < 8 {
      self.n += 1;
      Some(self.n)
    } else {
      None
    }
  }
}
#[kani::proof]
#[kani::unwind(10)]
fn k_wire_from_iter__stops_pulling_after_the_subscription_ended() {
  let pulls = Log::new();
  let log = Log::new();
  let _s = observables::from_iter(CountingIter { n: 0, pulls }).take(3).subscribe(
    move |x: u8| log.push(EV_N | x as u32),
    move |e: RxError| log.push(EV_E | err_id(&e)),
    move || log.push(EV_C),
  );
  assert!(log.is(&[EV_N | 1, EV_N | 2, EV_N | 3, EV_C]), "wire.from_iter: trace differs from the first three elements then complete");
  assert!(pulls.len() <= 4, "wire.from_iter.stops: the iterator was pulled again after the subscription had ended");
  kani::cover!(true, "harness reaches its end");
}

// merge whose first input ends the stream synchronously: the inputs wired afterwards must not stay subscribed on behalf of the ended
// subscriber (a hot input would keep the forwarding observer, and the operators in between their closures, until it next emits)
#[kani::proof]
#[kani::unwind(4)]
fn k_wire_merge__inputs_wired_after_a_synchronous_end_are_not_held() {
  let sb: &'static Slot<Observer<'static, u8>> = Slot::new();
  let f_calls = Log::new();
  let log = Log::new();
  let id: u8 = kani::any();
  let _s = observables::error::<u8>(err(id)).merge(&[hot(sb).map(move |x: u8| { f_calls.push(1); x })]).subscribe(
    move |x: u8| log.push(EV_N | x as u32),
    move |e: RxError| log.push(EV_E | err_id(&e)),
    move || log.push(EV_C),
  );
  assert!(log.is(&[EV_E | id as u32]), "wire.merge: the error of the first input did not reach the subscriber once, unchanged");
  if let Some(b) = sb.get() {
    assert!(!b.is_subscribed(), "wire.merge.late: an input wired after the stream had ended is subscribed");
    b.next(kani::any());
  }
  assert!(f_calls.len() == 0, "wire.merge.late: an operator closure of an input wired after the end was still held and ran");
  kani::cover!(true, "harness reaches its end");
}

// PROBES (open known findings, C02 composition clause): the inner observable handed out by window_with_count / group_by keeps
// mirroring its window / group only while the OUTER subscription is alive: `.take(1)` on the outer stream stops the source, and the
// window / group already handed out never gets its remaining items or its terminal.
#[kani::proof]
#[kani::unwind(6)]
fn k_wire_probe__window_handed_out_survives_the_outer_stream() {
  let log = Log::new();
  let _s = observables::from_iter([1u8, 2, 3].into_iter()).window_with_count(2).take(1).flat_map(|w| w).subscribe(
    move |x: u8| log.push(EV_N | x as u32),
    move |e: RxError| log.push(EV_E | err_id(&e)),
    move || log.push(EV_C),
  );
  assert!(log.is(&[EV_N | 1, EV_N | 2, EV_C]), "wire.window.outer: window_with_count(2).take(1).flat_map(|w| w) over 1,2,3 must deliver the first window: 1, 2, complete");
  kani::cover!(true, "harness reaches its end");
}

#[kani::proof]
#[kani::unwind(6)]
fn k_wire_probe__group_handed_out_survives_the_outer_stream() {
  let log = Log::new();
  let _s = observables::from_iter([1u8, 2, 3].into_iter()).group_by(|x| x % 2).take(1).flat_map(|g| g).subscribe(
    move |x: u8| log.push(EV_N | x as u32),
    move |e: RxError| log.push(EV_E | err_id(&e)),
    move || log.push(EV_C),
  );
  assert!(log.is(&[EV_N | 1, EV_N | 3, EV_C]), "wire.group_by.outer: group_by(x % 2).take(1).flat_map(|g| g) over 1,2,3 must deliver the first group: 1, 3, complete");
  kani::cover!(true, "harness reaches its end");
}
