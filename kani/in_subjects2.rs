// Bounded conformance of BehaviorSubject / ReplaySubject / AsyncSubject hand-over (C10) on the real types.
// BOUND: history <= 2 items, <= 2 observers, unwind 4.
use crate::prelude::*;

fn attach_o(o: &Observable<'static, u8>, log: &'static Log) -> Subscription<'static> {
  o.subscribe(
    move |x: u8| log.push(EV_N | x as u32),
    move |e: RxError| log.push(EV_E | err_id(&e)),
    move || log.push(EV_C),
  )
}

#[kani::proof]
#[kani::unwind(3)]
fn k_subject2_behavior__latest_then_live() {
  let init: u8 = kani::any();
  let a: u8 = kani::any();
  let b: u8 = kani::any();
  let sbj = subjects::BehaviorSubject::<u8>::new(init);
  let l1 = Log::new();
  let l2 = Log::new();
  let _s1 = attach_o(&sbj.observable(), l1);
  sbj.next(a);
  let _s2 = attach_o(&sbj.observable(), l2);
  sbj.next(b);
  sbj.complete();
  assert!(l1.is(&[EV_N | init as u32, EV_N | a as u32, EV_N | b as u32, EV_C]), "subject.behavior: first observer trace differs");
  assert!(l2.is(&[EV_N | a as u32, EV_N | b as u32, EV_C]), "subject.behavior: a new subscriber must first get the latest value, then behave like a Subject");
  let l3 = Log::new();
  let _s3 = attach_o(&sbj.observable(), l3);
  assert!(l3.is(&[EV_C]), "subject.behavior: a subscriber arriving after completion must get the stored terminal only");
  kani::cover!(true, "harness reaches its end");
}

#[kani::proof]
#[kani::unwind(3)]
fn k_subject2_behavior__stored_error() {
  let sbj = subjects::BehaviorSubject::<u8>::new(0);
  let id: u8 = kani::any();
  sbj.error(err(id));
  let l = Log::new();
  let _s = attach_o(&sbj.observable(), l);
  assert!(l.is(&[EV_E | id as u32]), "subject.behavior: a subscriber arriving after the error must get the stored error only");
  kani::cover!(true, "harness reaches its end");
}

#[kani::proof]
#[kani::unwind(3)]
fn k_subject2_replay__history_then_live() {
  let a: u8 = kani::any();
  let b: u8 = kani::any();
  let c: u8 = kani::any();
  let sbj = subjects::ReplaySubject::<u8>::new();
  sbj.next(a);
  sbj.next(b);
  let l1 = Log::new();
  let _s1 = attach_o(&sbj.observable(), l1);
  sbj.next(c);
  sbj.complete();
  assert!(l1.is(&[EV_N | a as u32, EV_N | b as u32, EV_N | c as u32, EV_C]), "subject.replay: a new subscriber must get every past item in order, then live events");
  let l2 = Log::new();
  let _s2 = attach_o(&sbj.observable(), l2);
  assert!(l2.is(&[EV_N | a as u32, EV_N | b as u32, EV_N | c as u32, EV_C]), "subject.replay: a subscriber arriving after completion must get the full history followed by the stored terminal");
  kani::cover!(true, "harness reaches its end");
}

#[kani::proof]
#[kani::unwind(3)]
fn k_subject2_async__last_item_on_completion() {
  let a: u8 = kani::any();
  let b: u8 = kani::any();
  let sbj = subjects::AsyncSubject::<u8>::new();
  let l1 = Log::new();
  let _s1 = attach_o(&sbj.observable(), l1);
  sbj.next(a);
  assert!(l1.len() == 0, "subject.async: an item was handed out before completion");
  sbj.next(b);
  sbj.complete();
  assert!(l1.is(&[EV_N | b as u32, EV_C]), "subject.async: only the last item, on completion");
  kani::cover!(true, "harness reaches its end");
}

// re-entrancy: a second observer joins from inside the first observer's next callback while v is being multicast: it must be
// handed v (the latest value at that moment), exactly once
#[kani::proof]
#[kani::unwind(3)]
fn k_subject2_behavior__join_inside_next() {
  let sbj = subjects::BehaviorSubject::<u8>::new(0);
  let l1 = Log::new();
  let l2 = Log::new();
  let me: &'static Slot<subjects::BehaviorSubject<'static, u8>> = Slot::new();
  me.set(sbj.clone());
  let _s1 = sbj.observable().subscribe(
    move |x: u8| {
      l1.push(EV_N | x as u32);
      if x == 5 {
        if let Some(b) = me.get() {
          attach_o(&b.observable(), l2);
        }
      }
    },
    move |e: RxError| l1.push(EV_E | err_id(&e)),
    move || l1.push(EV_C),
  );
  sbj.next(5);
  assert!(l1.is(&[EV_N, EV_N | 5]), "subject.behavior: first observer trace differs");
  assert!(l2.is(&[EV_N | 5]), "subject.behavior: an observer joining while 5 is being multicast must be handed the latest value (5) exactly once");
  kani::cover!(true, "harness reaches its end");
}

// two observers attached through the SAME Observable handle of a ReplaySubject; the first one leaves; the second must keep
// receiving and the first must be gone from the underlying subject
#[kani::proof]
#[kani::unwind(3)]
fn k_subject2_replay__shared_handle_one_leaves() {
  let sbj = subjects::ReplaySubject::<u8>::new();
  let o = sbj.observable();
  let l1 = Log::new();
  let l2 = Log::new();
  let s1 = attach_o(&o, l1);
  let s2 = attach_o(&o, l2);
  s1.unsubscribe();
  let x: u8 = kani::any();
  sbj.next(x);
  assert!(s2.is_subscribed(), "subject.replay: the remaining observer's subscription ended when another observer left");
  assert!(l1.len() == 0, "subject.unsubscribe: an unsubscribed observer received a later event");
  assert!(l2.is(&[EV_N | x as u32]), "subject.replay: the remaining observer lost an item after another observer (same Observable handle) left");
  kani::cover!(true, "harness reaches its end");
}

#[kani::proof]
#[kani::unwind(3)]
fn k_subject2_replay__history_then_stored_error() {
  let a: u8 = kani::any();
  let b: u8 = kani::any();
  let id: u8 = kani::any();
  let sbj = subjects::ReplaySubject::<u8>::new();
  sbj.next(a);
  sbj.next(b);
  sbj.error(err(id));
  let l = Log::new();
  let _s = attach_o(&sbj.observable(), l);
  assert!(l.is(&[EV_N | a as u32, EV_N | b as u32, EV_E | id as u32]), "subject.replay: a subscriber arriving after the error must get every past item in order, then the stored error");
  kani::cover!(true, "harness reaches its end");
}

// unsubscribe hooks of the wrapping subjects: when an observer of a BehaviorSubject / ReplaySubject unsubscribes, the INNER Subject
// must drop the forwarding observer that was registered on its behalf
#[kani::proof]
#[kani::unwind(3)]
fn k_subject2_behavior__unsubscribe_releases_inner_observer() {
  let sbj = subjects::BehaviorSubject::<u8>::new(1);
  let l1 = Log::new();
  let s1 = attach_o(&sbj.observable(), l1);
  assert!(crate::subjects::subject::verif_k::held(&sbj.subject) == 1, "subject.behavior: the new subscriber was not attached to the inner Subject");
  s1.unsubscribe();
  assert!(crate::subjects::subject::verif_k::held(&sbj.subject) == 0, "subject.drops: the inner Subject of a BehaviorSubject still holds the observer of a subscriber that unsubscribed");
  sbj.next(kani::any());
  assert!(l1.is(&[EV_N | 1]), "subject.unsubscribe: an unsubscribed observer received a later event");
  kani::cover!(true, "harness reaches its end");
}

// events signalled on a subject AFTER it has accepted a terminal are ignored: what a late subscriber is handed never changes again
#[kani::proof]
#[kani::unwind(3)]
fn k_subject2_behavior__events_after_a_terminal_are_ignored() {
  let sbj = subjects::BehaviorSubject::<u8>::new(1);
  sbj.complete();
  sbj.next(kani::any());
  sbj.error(err(kani::any()));
  let l = Log::new();
  let _s = attach_o(&sbj.observable(), l);
  sbj.next(kani::any());
  assert!(l.is(&[EV_C]), "subject.behavior: a subscriber arriving after complete() must be handed the stored terminal only, whatever is signalled on the subject afterwards");
  assert!(crate::subjects::subject::verif_k::held(&sbj.subject) == 0, "subject.drops: a BehaviorSubject that has completed holds an observer");
  kani::cover!(true, "harness reaches its end");
}

#[kani::proof]
#[kani::unwind(3)]
fn k_subject2_replay__events_after_a_terminal_are_ignored() {
  let a: u8 = kani::any();
  let sbj = subjects::ReplaySubject::<u8>::new();
  sbj.next(a);
  sbj.complete();
  sbj.next(kani::any());
  sbj.error(err(kani::any()));
  let l = Log::new();
  let _s = attach_o(&sbj.observable(), l);
  assert!(l.is(&[EV_N | a as u32, EV_C]), "subject.replay: a subscriber arriving after complete() must get the items emitted before it and the stored completion, whatever is signalled on the subject afterwards");
  kani::cover!(true, "harness reaches its end");
}

// a subscriber that ends DURING the hand-over (the handed value already satisfies a downstream take(1)) must not be left registered
// in the inner Subject: its teardown has already run by the time the inner subscription exists
#[kani::proof]
#[kani::unwind(3)]
fn k_subject2_behavior__subscriber_that_ends_during_the_hand_over_is_not_held() {
  let v: u8 = kani::any();
  let sbj = subjects::BehaviorSubject::<u8>::new(v);
  let l = Log::new();
  let _s = attach_o(&sbj.observable().take(1), l);
  assert!(l.is(&[EV_N | v as u32, EV_C]), "subject.behavior: take(1) on a BehaviorSubject must deliver the latest value and complete");
  assert!(crate::subjects::subject::verif_k::held(&sbj.subject) == 0, "subject.drops: the inner Subject of a BehaviorSubject holds the observer of a subscriber that ended during the hand-over");
  kani::cover!(true, "harness reaches its end");
}

#[kani::proof]
#[kani::unwind(3)]
fn k_subject2_replay__subscriber_that_ends_during_the_replay_is_not_held() {
  let (a, b): (u8, u8) = (kani::any(), kani::any());
  let sbj = subjects::ReplaySubject::<u8>::new();
  sbj.next(a);
  sbj.next(b);
  let l = Log::new();
  let _s = attach_o(&sbj.observable().take(1), l);
  assert!(l.is(&[EV_N | a as u32, EV_C]), "subject.replay: take(1) on a ReplaySubject with history must deliver the first past item and complete");
  assert!(crate::subjects::subject::verif_k::held(crate::subjects::replay_subject::verif_k::inner(&sbj)) == 0, "subject.drops: the inner Subject of a ReplaySubject holds the observer of a subscriber that ended during the replay");
  // a subscriber that arrives after the terminal is handed history + terminal and is not kept either
  sbj.complete();
  let l2 = Log::new();
  let _s2 = attach_o(&sbj.observable(), l2);
  assert!(l2.is(&[EV_N | a as u32, EV_N | b as u32, EV_C]), "subject.replay: a subscriber arriving after complete() must get every past item and the stored completion");
  assert!(crate::subjects::subject::verif_k::held(crate::subjects::replay_subject::verif_k::inner(&sbj)) == 0, "subject.drops: the inner Subject of a terminated ReplaySubject holds the observer of a late subscriber");
  kani::cover!(true, "harness reaches its end");
}

// PROBE (open known finding): AsyncSubject = Subject.take_last(1) keeps the last item per SUBSCRIBER (inside each take_last), not in the
// subject: an observer that joins after the last next() but before complete() is handed only the completion
#[kani::proof]
#[kani::unwind(3)]
fn k_subject2_probe__async_joiner_before_completion_gets_the_last_item() {
  let x: u8 = kani::any();
  let sbj = subjects::AsyncSubject::<u8>::new();
  let l1 = Log::new();
  let _s1 = attach_o(&sbj.observable(), l1);
  sbj.next(x);
  let l2 = Log::new();
  let _s2 = attach_o(&sbj.observable(), l2);
  sbj.complete();
  assert!(l1.is(&[EV_N | x as u32, EV_C]), "subject.async: the first observer did not get the last item on completion");
  assert!(l2.is(&[EV_N | x as u32, EV_C]), "subject.async.late: an observer that joined before complete() was not handed the last item on completion");
  kani::cover!(true, "harness reaches its end");
}
