// Bounded conformance of BehaviorSubject / ReplaySubject / AsyncSubject hand-over (C10) on the real types.
// BOUND: history <= 2 items, <= 2 observers, unwind 4.
use crate::prelude::*;

fn attach_o(o: &Observable<'static, u8>, log: &'static Log) -> Subscription<'static> {
  o.subscribe(
    move |x: u8| log.push(EV_N | x as u32),
    move |e: RxError| log.push(EV_E | err_id(&e)),
    move || log.push(EV_C),
  )
}

#[kani::proof]
#[kani::unwind(4)]
fn k_subject2_behavior__latest_then_live() {
  let init: u8 = kani::any();
  let a: u8 = kani::any();
  let b: u8 = kani::any();
  let sbj = subjects::BehaviorSubject::<u8>::new(init);
  let l1 = Log::new();
  let l2 = Log::new();
  let _s1 = attach_o(&sbj.observable(), l1);
  sbj.next(a);
  let _s2 = attach_o(&sbj.observable(), l2);
  sbj.next(b);
  sbj.complete();
  assert!(l1.is(&[EV_N | init as u32, EV_N | a as u32, EV_N | b as u32, EV_C]), "subject.behavior: first observer trace differs");
  assert!(l2.is(&[EV_N | a as u32, EV_N | b as u32, EV_C]), "subject.behavior: a new subscriber must first get the latest value, then behave like a Subject");
  let l3 = Log::new();
  let _s3 = attach_o(&sbj.observable(), l3);
  assert!(l3.is(&[EV_C]), "subject.behavior: a subscriber arriving after completion must get the stored terminal only");
  kani::cover!(true, "harness reaches its end");
}

#[kani::proof]
#[kani::unwind(4)]
fn k_subject2_behavior__stored_error() {
  let sbj = subjects::BehaviorSubject::<u8>::new(0);
  let id: u8 = kani::any();
  sbj.error(err(id));
  let l = Log::new();
  let _s = attach_o(&sbj.observable(), l);
  assert!(l.is(&[EV_E | id as u32]), "subject.behavior: a subscriber arriving after the error must get the stored error only");
  kani::cover!(true, "harness reaches its end");
}

#[kani::proof]
#[kani::unwind(4)]
fn k_subject2_replay__history_then_live() {
  let a: u8 = kani::any();
  let b: u8 = kani::any();
  let c: u8 = kani::any();
  let sbj = subjects::ReplaySubject::<u8>::new();
  sbj.next(a);
  sbj.next(b);
  let l1 = Log::new();
  let _s1 = attach_o(&sbj.observable(), l1);
  sbj.next(c);
  sbj.complete();
  assert!(l1.is(&[EV_N | a as u32, EV_N | b as u32, EV_N | c as u32, EV_C]), "subject.replay: a new subscriber must get every past item in order, then live events");
  let l2 = Log::new();
  let _s2 = attach_o(&sbj.observable(), l2);
  assert!(l2.is(&[EV_N | a as u32, EV_N | b as u32, EV_N | c as u32, EV_C]), "subject.replay: a subscriber arriving after completion must get the full history followed by the stored terminal");
  kani::cover!(true, "harness reaches its end");
}

#[kani::proof]
#[kani::unwind(4)]
fn k_subject2_async__last_item_on_completion() {
  let a: u8 = kani::any();
  let b: u8 = kani::any();
  let sbj = subjects::AsyncSubject::<u8>::new();
  let l1 = Log::new();
  let _s1 = attach_o(&sbj.observable(), l1);
  sbj.next(a);
  assert!(l1.len() == 0, "subject.async: an item was handed out before completion");
  sbj.next(b);
  sbj.complete();
  assert!(l1.is(&[EV_N | b as u32, EV_C]), "subject.async: only the last item, on completion");
  kani::cover!(true, "harness reaches its end");
}
