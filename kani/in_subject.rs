// K-refine obligations for subjects::Subject (L2', C10) against SubjectModel (DESIGN A.4): every next/error/complete reaches
// exactly the observers registered at that moment, once each; after a terminal or after an observer's unsubscribe the subject
// no longer holds it.  BOUND: <= 2 observers; both iteration orders of the observer map; symbolic items.

pub(crate) struct SRig {
  pub log1: &'static Log,
  pub log2: &'static Log,
  pub sbj: Subject<'static, u8>,
}

fn attach(sbj: &Subject<'static, u8>, log: &'static Log) -> Subscription<'static> {
  sbj.observable().subscribe(
    move |x: u8| log.push(EV_N | x as u32),
    move |e: RxError| log.push(EV_E | err_id(&e)),
    move || log.push(EV_C),
  )
}

pub(crate) fn held(sbj: &Subject<'static, u8>) -> usize {
  sbj.observers.read().unwrap().len()
}

macro_rules! sbj_h {
  ($name:ident, $rev:expr, |$sbj:ident, $l1:ident, $l2:ident| $body:block) => {
    #[kani::proof]
    #[kani::unwind(3)]
    fn $name() {
      crate::verif_sync::REVERSE_ITER.store($rev, std::sync::atomic::Ordering::Relaxed);
      let $sbj: Subject<'static, u8> = Subject::new();
      let $l1 = Log::new();
      let $l2 = Log::new();
      $body;
      kani::cover!(true, "harness reaches its end");
    }
  };
}

sbj_h!(k_subject_next__o2, false, |sbj, l1, l2| {
  let _s1 = attach(&sbj, l1);
  let _s2 = attach(&sbj, l2);
  assert!(held(&sbj) == 2, "subject.register: subscribed observers are not held");
  let x: u8 = kani::any();
  let y: u8 = kani::any();
  sbj.next(x);
  sbj.next(y);
  assert!(l1.is(&[EV_N | x as u32, EV_N | y as u32]), "subject.next: observer 1 did not get every item exactly once in call order");
  assert!(l2.is(&[EV_N | x as u32, EV_N | y as u32]), "subject.next: observer 2 did not get every item exactly once in call order");
});
sbj_h!(k_subject_next__o2_rev, true, |sbj, l1, l2| {
  let _s1 = attach(&sbj, l1);
  let _s2 = attach(&sbj, l2);
  let x: u8 = kani::any();
  sbj.next(x);
  assert!(l1.is(&[EV_N | x as u32]) && l2.is(&[EV_N | x as u32]), "subject.next: an observer did not get the item exactly once");
});
sbj_h!(k_subject_next__late_joiner, false, |sbj, l1, l2| {
  let _s1 = attach(&sbj, l1);
  let x: u8 = kani::any();
  let y: u8 = kani::any();
  sbj.next(x);
  let _s2 = attach(&sbj, l2);
  sbj.next(y);
  assert!(l1.is(&[EV_N | x as u32, EV_N | y as u32]), "subject.next: observer 1 trace differs");
  assert!(l2.is(&[EV_N | y as u32]), "subject.next: a plain Subject must deliver to a late joiner exactly the items issued after it subscribed");
});
sbj_h!(k_subject_complete__o2, false, |sbj, l1, l2| {
  let s1 = attach(&sbj, l1);
  let _s2 = attach(&sbj, l2);
  let x: u8 = kani::any();
  sbj.next(x);
  sbj.complete();
  assert!(held(&sbj) == 0, "subject.drops: observers still held after complete");
  sbj.next(kani::any());
  assert!(l1.is(&[EV_N | x as u32, EV_C]), "subject.complete: observer 1 trace differs (terminal not exactly once, or events after it)");
  assert!(l2.is(&[EV_N | x as u32, EV_C]), "subject.complete: observer 2 trace differs");
  assert!(!s1.is_subscribed(), "subject.complete: subscription still reports subscribed");
});
sbj_h!(k_subject_error__o2_rev, true, |sbj, l1, l2| {
  let _s1 = attach(&sbj, l1);
  let _s2 = attach(&sbj, l2);
  let id: u8 = kani::any();
  sbj.error(err(id));
  assert!(held(&sbj) == 0, "subject.drops: observers still held after error");
  assert!(l1.is(&[EV_E | id as u32]) && l2.is(&[EV_E | id as u32]), "subject.error: an observer did not get the error exactly once as its last event");
});
sbj_h!(k_subject_unsubscribe__o2, false, |sbj, l1, l2| {
  let s1 = attach(&sbj, l1);
  let _s2 = attach(&sbj, l2);
  let x: u8 = kani::any();
  let y: u8 = kani::any();
  sbj.next(x);
  s1.unsubscribe();
  assert!(held(&sbj) == 1, "subject.drops: the subject still holds an observer that unsubscribed");
  sbj.next(y);
  s1.unsubscribe();
  assert!(held(&sbj) == 1, "subject.drops: second unsubscribe changed the observer set");
  sbj.complete();
  assert!(l1.is(&[EV_N | x as u32]), "subject.unsubscribe: an unsubscribed observer received a later event");
  assert!(l2.is(&[EV_N | x as u32, EV_N | y as u32, EV_C]), "subject.unsubscribe: the remaining observer's trace differs");
  assert!(held(&sbj) == 0, "subject.drops: observers still held after complete");
});
sbj_h!(k_subject_counts__on_subscribe_on_unsubscribe, false, |sbj, l1, l2| {
  let cnt = Log::new();
  let me: &'static Slot<Subject<'static, u8>> = Slot::new();
  me.set(sbj.clone());
  // when on_subscribe(n) is told about the new observer, that observer is already registered (ref_count connects inside this call:
  // whatever the source emits while being connected must reach the subscriber that triggered the connect)
  sbj.set_on_subscribe(move |n| {
    cnt.push(0x700 | n as u32);
    if let Some(s) = me.get() {
      assert!(held(&s) == n, "subject.counts: on_subscribe reported an observer that is not registered yet");
    }
  });
  sbj.set_on_unsubscribe(move |n| cnt.push(0x800 | n as u32));
  let s1 = attach(&sbj, l1);
  let s2 = attach(&sbj, l2);
  s1.unsubscribe();
  s2.unsubscribe();
  assert!(cnt.is(&[0x701, 0x702, 0x801, 0x800]), "subject.counts: on_subscribe/on_unsubscribe did not report the observer count after each change");
});


// three observers over time, never more than two at once: A and B join, A leaves, C joins.  B (which never left) and C must
// both keep receiving; the registration of C must not displace B.
sbj_h!(k_subject_rejoin__first_leaves_third_joins, false, |sbj, l1, l2| {
  let l3 = Log::new();
  let s1 = attach(&sbj, l1);
  let _s2 = attach(&sbj, l2);
  s1.unsubscribe();
  let s3 = attach(&sbj, l3);
  assert!(held(&sbj) == 2, "subject.register: a new observer displaced one that is still subscribed");
  let x: u8 = kani::any();
  sbj.next(x);
  assert!(l1.len() == 0, "subject.unsubscribe: an unsubscribed observer received a later event");
  assert!(l2.is(&[EV_N | x as u32]), "subject.next: an observer that never left lost an item after another observer joined");
  assert!(l3.is(&[EV_N | x as u32]), "subject.next: the new observer did not get the item");
  s3.unsubscribe();
  assert!(held(&sbj) == 1, "subject.drops: unsubscribing the newest observer removed someone else (or nobody)");
});

// ---- single-observer variants (cheap; the two-observer variants above run in the thorough tier) ---------------------------------
sbj_h!(k_subject1_next_then_complete, false, |sbj, l1, l2| {
  let s1 = attach(&sbj, l1);
  assert!(held(&sbj) == 1, "subject.register: the subscribed observer is not held");
  let x: u8 = kani::any();
  sbj.next(x);
  sbj.complete();
  assert!(held(&sbj) == 0, "subject.drops: observer still held after complete");
  sbj.next(kani::any());
  assert!(l1.is(&[EV_N | x as u32, EV_C]), "subject.complete: trace differs (item or terminal not exactly once, or events after the terminal)");
  assert!(!s1.is_subscribed(), "subject.complete: subscription still reports subscribed");
});
sbj_h!(k_subject1_error, false, |sbj, l1, l2| {
  let _s1 = attach(&sbj, l1);
  let id: u8 = kani::any();
  sbj.error(err(id));
  assert!(held(&sbj) == 0, "subject.drops: observer still held after error");
  sbj.next(kani::any());
  assert!(l1.is(&[EV_E | id as u32]), "subject.error: the observer did not get the error exactly once as its last event");
});
sbj_h!(k_subject1_unsubscribe, false, |sbj, l1, l2| {
  let s1 = attach(&sbj, l1);
  let x: u8 = kani::any();
  sbj.next(x);
  s1.unsubscribe();
  assert!(held(&sbj) == 0, "subject.drops: the subject still holds an observer that unsubscribed");
  sbj.next(kani::any());
  sbj.complete();
  s1.unsubscribe();
  assert!(l1.is(&[EV_N | x as u32]), "subject.unsubscribe: an unsubscribed observer received a later event");
});
sbj_h!(k_subject1_resubscribe, false, |sbj, l1, l2| {
  // subscribe, leave, subscribe again: the second registration must be independent of the first
  let s1 = attach(&sbj, l1);
  s1.unsubscribe();
  let _s2 = attach(&sbj, l2);
  assert!(held(&sbj) == 1, "subject.register: re-subscription not held exactly once");
  let x: u8 = kani::any();
  sbj.next(x);
  assert!(l1.len() == 0, "subject.unsubscribe: an unsubscribed observer received a later event");
  assert!(l2.is(&[EV_N | x as u32]), "subject.next: the re-subscribed observer did not get the item exactly once");
});

// re-entrancy: an observer unsubscribes itself from inside its own next callback while the subject is broadcasting
#[kani::proof]
#[kani::unwind(3)]
fn k_subject_reenter__unsub_in_next() {
  let sbj: Subject<'static, u8> = Subject::new();
  let l1 = Log::new();
  let l2 = Log::new();
  let me: &'static Slot<Subscription<'static>> = Slot::new();
  let s1 = sbj.observable().subscribe(
    move |x: u8| {
      l1.push(EV_N | x as u32);
      if let Some(s) = me.get() {
        s.unsubscribe();
      }
    },
    move |e: RxError| l1.push(EV_E | err_id(&e)),
    move || l1.push(EV_C),
  );
  me.set(s1.clone());
  let _s2 = attach(&sbj, l2);
  let x: u8 = kani::any();
  let y: u8 = kani::any();
  sbj.next(x);
  sbj.next(y);
  assert!(l1.is(&[EV_N | x as u32]), "subject.reenter: an observer that unsubscribed inside its callback received a later item");
  assert!(l2.is(&[EV_N | x as u32, EV_N | y as u32]), "subject.reenter: the other observer lost an item");
  assert!(held(&sbj) == 1, "subject.drops: the subject still holds the observer that unsubscribed itself");
  kani::cover!(true, "harness reaches its end");
}
// PROBE (known finding D8): a subscriber that arrives after the terminal must not be held (and gets nothing from later calls)
sbj_h!(k_subject_probe__subscribe_after_complete, false, |sbj, l1, l2| {
  sbj.complete();
  let _s1 = attach(&sbj, l1);
  sbj.next(kani::any());
  assert!(l1.count(EV_C) + l1.len() == l1.len() && l1.downstream().0 == l1.count(EV_C), "subject.late: a subscriber that arrived after complete() received a later item");
  assert!(held(&sbj) == 0, "subject.late: the subject holds an observer that subscribed after the terminal");
});

// re-entrancy with three observers: the FIRST observer's next handler unsubscribes the SECOND one while the subject is multicasting;
// the THIRD one (which never left) must still get the item, in both iteration orders of the observer map
macro_rules! sbj3_h {
  ($name:ident, $rev:expr) => {
    #[kani::proof]
    #[kani::unwind(4)]
    fn $name() {
      crate::verif_sync::REVERSE_ITER.store($rev, std::sync::atomic::Ordering::Relaxed);
      let sbj: Subject<'static, u8> = Subject::new();
      let l1 = Log::new();
      let l2 = Log::new();
      let l3 = Log::new();
      let victim: &'static Slot<Subscription<'static>> = Slot::new();
      // registration order a, b, c; with $rev the multicast visits c, b, a
      let killer = move |log: &'static Log| {
        move |x: u8| {
          log.push(EV_N | x as u32);
          if let Some(s) = victim.get() {
            s.unsubscribe();
          }
        }
      };
      let _sa = sbj.observable().subscribe(killer(l1), move |e: RxError| l1.push(EV_E), move || l1.push(EV_C));
      let sb = attach(&sbj, l2);
      let _sc = sbj.observable().subscribe(killer(l3), move |e: RxError| l3.push(EV_E), move || l3.push(EV_C));
      victim.set(sb.clone());
      let x: u8 = kani::any();
      sbj.next(x);
      assert!(l1.is(&[EV_N | x as u32]), "subject.reenter: an observer that never left lost the item (multicast stopped at an observer unsubscribed during it)");
      assert!(l3.is(&[EV_N | x as u32]), "subject.reenter: an observer that never left lost the item (multicast stopped at an observer unsubscribed during it)");
      assert!(held(&sbj) == 2, "subject.drops: the subject still holds the observer that was unsubscribed");
      kani::cover!(true, "harness reaches its end");
    }
  };
}
sbj3_h!(k_subject_reenter3__unsub_other_in_next, false);
sbj3_h!(k_subject_reenter3__unsub_other_in_next_rev, true);

sbj_h!(k_subject_reenter__next_in_error_callback, false, |sbj, l1, l2| {
  let me: &'static Slot<Subject<'static, u8>> = Slot::new();
  me.set(sbj.clone());
  let once = Flag::new();
  let _s1 = sbj.observable().subscribe(
    move |x: u8| l1.push(EV_N | x as u32),
    move |e: RxError| {
      l1.push(EV_E | err_id(&e));
      if !once.get() {
        once.set(true);
        if let Some(s) = me.get() {
          s.next(99);
        }
      }
    },
    move || l1.push(EV_C),
  );
  let _s2 = sbj.observable().subscribe(
    move |x: u8| l2.push(EV_N | x as u32),
    move |e: RxError| {
      l2.push(EV_E | err_id(&e));
      if !once.get() {
        once.set(true);
        if let Some(s) = me.get() {
          s.next(99);
        }
      }
    },
    move || l2.push(EV_C),
  );
  let id: u8 = kani::any();
  sbj.error(err(id));
  assert!(l1.is(&[EV_E | id as u32]) && l2.is(&[EV_E | id as u32]), "subject.error: an item issued from inside an error callback reached an observer of the terminated subject (the observers were not dropped before the multicast)");
  assert!(held(&sbj) == 0, "subject.drops: observers still held after error");
});

// ---- handles: clones of a Subject, and Observable values obtained from it, are handles on ONE registry ------------------------
// two subscriptions made through the SAME Observable value are independent registrations; a clone of the Subject draws its
// registration keys from the same counter (publish / ref_count hand out clones)
sbj_h!(k_subject_handles__same_observable_twice_and_a_cloned_subject, false, |sbj, l1, l2| {
  // never more than two observers at once (bound of the map facade / unwind 3)
  let o = sbj.observable();
  let s1 = o.subscribe(move |x: u8| l1.push(EV_N | x as u32), move |e: RxError| l1.push(EV_E | err_id(&e)), move || l1.push(EV_C));
  let s2 = o.subscribe(move |x: u8| l2.push(EV_N | x as u32), move |e: RxError| l2.push(EV_E | err_id(&e)), move || l2.push(EV_C));
  assert!(held(&sbj) == 2, "subject.register: two subscriptions through the same Observable value are not two registrations");
  s1.unsubscribe();
  assert!(held(&sbj) == 1, "subject.drops: unsubscribing one of the subscriptions removed someone else (or nobody)");
  let x: u8 = kani::any();
  sbj.next(x);
  assert!(l1.len() == 0 && l2.is(&[EV_N | x as u32]), "subject.next: the remaining subscribers did not each get the item once");
  let l3 = Log::new();
  let l4 = Log::new();
  let twin = sbj.clone();
  let _s3 = attach(&twin, l3);
  assert!(held(&sbj) == 2, "subject.register: a subscription through a clone of the Subject displaced a registered observer");
  s2.unsubscribe();
  let _s4 = attach(&sbj, l4);
  assert!(held(&sbj) == 2, "subject.register: a subscription through the original displaced the one made through its clone (the clone does not share the key counter)");
  let y: u8 = kani::any();
  twin.next(y);
  assert!(l3.is(&[EV_N | y as u32]) && l4.is(&[EV_N | y as u32]), "subject.next: the remaining subscribers did not each get the item once");
});

// unsubscribing after the terminal has no effect - in particular it must not evict an observer that registered later
sbj_h!(k_subject_unsubscribe_after_terminal__has_no_effect_on_later_observers, false, |sbj, l1, l2| {
  let s1 = attach(&sbj, l1);
  sbj.complete();
  let _s2 = attach(&sbj, l2); // (a plain Subject accepts it: open known finding; this harness is about s1's late unsubscribe)
  let before = held(&sbj);
  s1.unsubscribe();
  assert!(held(&sbj) == before, "subject.unsubscribe: unsubscribing after the terminal removed an observer that registered later");
  assert!(l1.is(&[EV_C]), "subject.complete: trace of the first observer differs");
});
