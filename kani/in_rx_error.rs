// K-refine obligations for RxError (C04): the payload travels by shared ownership; clone/downcast give back the very value.

/// object identity of two RxError values (used by every harness module to identify error payloads)
pub(crate) fn same_error(a: &RxError, b: &RxError) -> bool {
  Arc::ptr_eq(&a.inner, &b.inner)
}

#[kani::proof]
fn k_err_payload_identity() {
  let v: u32 = kani::any();
  let e = RxError::from_error(v);
  let c = e.clone();
  assert!(c.downcast_ref::<u32>() == Some(&v), "err.downcast: downcast_ref to the original type does not yield the original value");
  assert!(e.downcast_ref::<u32>() == Some(&v), "err.downcast: original changed by clone");
  assert!(c.downcast_ref::<u8>().is_none(), "err.downcast: downcast to a different type succeeded");
  assert!(Arc::ptr_eq(&e.inner, &c.inner), "err.clone: clone does not share the payload");
  assert!(c.is::<u32>() && !c.is::<u16>(), "err.is: type test differs");
  kani::cover!(true, "harness reaches its end");
}

// through the real StreamController and Observer: the subscriber's error callback receives the same payload object
#[kani::proof]
#[kani::unwind(3)]
fn k_err_through_sink_error() {
  use crate::prelude::*;
  let log = Log::new();
  let seen: &'static Slot<RxError> = Slot::new();
  let sub: Observer<'static, u8> = Observer::new(move |_x: u8| log.push(EV_N), move |e: RxError| { seen.set(e); log.push(EV_E) }, move || log.push(EV_C));
  let sctl = crate::internals::stream_controller::StreamController::new(sub.clone());
  let v: u16 = kani::any();
  let e = RxError::from_error(v);
  sctl.sink_error(e.clone());
  let got = seen.get().unwrap();
  assert!(log.is(&[EV_E]), "err.delivery: the error did not reach the subscriber exactly once as the only event");
  assert!(Arc::ptr_eq(&e.inner, &got.inner), "err.identity: the subscriber received a different payload object");
  assert!(got.downcast_ref::<u16>() == Some(&v), "err.identity: payload value changed on the way");
  kani::cover!(true, "harness reaches its end");
}

// the other constructor: an error built from a Result::Err keeps the Err payload itself (same type, same value)
#[kani::proof]
fn k_err_from_result_payload() {
  let v: u32 = kani::any();
  let r: Result<u8, u32> = Err(v);
  let e = RxError::from_result(r);
  assert!(e.downcast_ref::<u32>() == Some(&v), "err.downcast: from_result does not keep the Err payload (downcast_ref to the original type fails or differs)");
  assert!(e.is::<u32>(), "err.is: from_result changed the payload type");
  kani::cover!(true, "harness reaches its end");
}
