// props: C01 C05 C17
// History lemmas over the Observer contract (ObsModel, DESIGN A.1).  The per-call contract `step` below is the same table
// that the Kani K-refine harnesses (kani/common.rs `obs_step`, kani/in_observer.rs) check against the REAL Observer methods
// from every slot state; here Verus proves, by induction over ALL finite call sequences, what the table implies:
//   C01  the callback trace is  next* (error | complete)?  and nothing follows the terminal,
//   C05  nothing is delivered after unsubscribe; unsubscribe is idempotent; is_subscribed is true exactly until the first
//        terminal / unsubscribe and false ever after,
//   C17  after a terminal followed by (or consisting of) unsubscribe no slot holds a closure.
use vstd::prelude::*;
verus! {

pub struct ObsState { pub n: bool, pub e: bool, pub c: bool, pub t: bool }

pub enum Call { Next(int), Error(int), Complete, Unsubscribe }

pub enum Out { N(int), E(int), C, T }   // T = the teardown action ran

pub open spec fn step(s: ObsState, call: Call) -> (ObsState, Option<Out>) {
    match call {
        Call::Next(x) => (s, if s.n { Some(Out::N(x)) } else { None }),
        Call::Error(id) => (ObsState { n: false, e: false, c: false, t: s.t }, if s.e { Some(Out::E(id)) } else { None }),
        Call::Complete => (ObsState { n: false, e: false, c: false, t: s.t }, if s.c { Some(Out::C) } else { None }),
        Call::Unsubscribe => (ObsState { n: false, e: false, c: false, t: false }, if s.t { Some(Out::T) } else { None }),
    }
}

pub open spec fn is_subscribed(s: ObsState) -> bool { s.n && s.e && s.c }

/// states reachable through the public API: all three callbacks present, or none
pub open spec fn inv(s: ObsState) -> bool { (s.n == s.e) && (s.e == s.c) }

pub open spec fn run(s: ObsState, calls: Seq<Call>) -> (ObsState, Seq<Out>)
    decreases calls.len()
{
    if calls.len() == 0 { (s, Seq::empty()) } else {
        let (s1, tr) = run(s, calls.drop_last());
        let (s2, o) = step(s1, calls.last());
        (s2, match o { Some(ev) => tr.push(ev), None => tr })
    }
}

pub open spec fn is_terminal(o: Out) -> bool { o is E || o is C }
pub open spec fn is_callback(o: Out) -> bool { !(o is T) }

/// number of callbacks (N/E/C) in a trace
pub open spec fn callbacks(tr: Seq<Out>) -> Seq<Out> { tr.filter(|o: Out| is_callback(o)) }

/// next* (error|complete)? : a terminal can only be the last callback
pub open spec fn well_formed(tr: Seq<Out>) -> bool {
    forall|i: int, j: int| 0 <= i < j < tr.len() && is_callback(tr[j]) ==> !is_terminal(tr[i])
}

pub open spec fn has_terminal(tr: Seq<Out>) -> bool { exists|i: int| 0 <= i < tr.len() && is_terminal(tr[i]) }
pub open spec fn count_t(tr: Seq<Out>) -> nat decreases tr.len() {
    if tr.len() == 0 { 0 } else { count_t(tr.drop_last()) + if tr.last() is T { 1nat } else { 0nat } }
}

/// the inductive invariant linking state and trace
pub open spec fn linked(s0: ObsState, s: ObsState, tr: Seq<Out>) -> bool {
    &&& inv(s)
    &&& well_formed(tr)
    &&& (has_terminal(tr) ==> !s.n && !s.e && !s.c)            // after a terminal no callback slot is callable
    &&& (s.n ==> s0.n) && (s.e ==> s0.e) && (s.c ==> s0.c) && (s.t ==> s0.t)   // slots only ever go from present to absent
    &&& count_t(tr) <= 1 && (count_t(tr) == 1 ==> !s.t && !s.n)  // teardown ran at most once, and then everything is gone
}

pub proof fn c01_all_histories(s0: ObsState, calls: Seq<Call>)
    requires inv(s0)
    ensures linked(s0, run(s0, calls).0, run(s0, calls).1)
    decreases calls.len()
{
    if calls.len() == 0 {
        assert(count_t(Seq::<Out>::empty()) == 0);
    } else {
        c01_all_histories(s0, calls.drop_last());
        let (s1, tr) = run(s0, calls.drop_last());
        let (s2, o) = step(s1, calls.last());
        match o {
            Some(ev) => {
                let tr2 = tr.push(ev);
                assert(tr2.drop_last() =~= tr);
                assert(tr2.last() == ev);
                assert forall|i: int, j: int| 0 <= i < j < tr2.len() && is_callback(tr2[j]) implies !is_terminal(tr2[i]) by {
                    if j == tr.len() {
                        // a callback was emitted now: the emitting slot was present, hence (linked) no terminal so far
                        if is_terminal(tr[i]) { assert(has_terminal(tr)); }
                        assert(tr2[i] == tr[i]);
                    } else { assert(tr2[i] == tr[i] && tr2[j] == tr[j]); }
                }
                if has_terminal(tr2) {
                    let k = choose|k: int| 0 <= k < tr2.len() && is_terminal(tr2[k]);
                    if k < tr.len() { assert(tr2[k] == tr[k]); assert(has_terminal(tr)); }
                }
            },
            None => {},
        }
    }
}

/// C05: once not subscribed, never subscribed again, and no callback is ever delivered again (whatever is called)
pub proof fn c05_dead_stays_dead(s: ObsState, calls: Seq<Call>)
    requires inv(s), !is_subscribed(s)
    ensures !is_subscribed(run(s, calls).0), callbacks(run(s, calls).1) =~= Seq::<Out>::empty()
    decreases calls.len()
{
    reveal(Seq::filter);
    if calls.len() > 0 {
        c05_dead_stays_dead(s, calls.drop_last());
        c01_all_histories(s, calls.drop_last());
        let (s1, tr) = run(s, calls.drop_last());
        let (s2, o) = step(s1, calls.last());
        assert(!s1.n && !s1.e && !s1.c);
        match o {
            Some(ev) => { assert(ev is T); assert(tr.push(ev).drop_last() =~= tr); },
            None => {},
        }
    }
}

/// C05: unsubscribe kills the observer whatever its state, and a second unsubscribe does nothing at all
pub proof fn c05_unsubscribe_idempotent(s: ObsState)
    ensures
        !is_subscribed(step(s, Call::Unsubscribe).0),
        step(step(s, Call::Unsubscribe).0, Call::Unsubscribe) == (step(s, Call::Unsubscribe).0, None::<Out>),
{
}

/// C05: is_subscribed() is true exactly until the first terminal or unsubscribe
pub proof fn c05_timeline(s: ObsState, call: Call)
    requires inv(s), is_subscribed(s)
    ensures is_subscribed(step(s, call).0) == (call is Next)
{
}

/// C17: after a delivered terminal followed by unsubscribe (what StreamController::finalize does) no slot holds a closure
pub proof fn c17_released(s: ObsState, term: Call)
    requires term is Error || term is Complete
    ensures ({ let s2 = step(step(s, term).0, Call::Unsubscribe).0; !s2.n && !s2.e && !s2.c && !s2.t })
{
}

} // verus!
fn main() {}
